/-
  C29 — Worker pools run every accepted task and shut down cleanly.

  "Under every thread interleaving, each task accepted by a thread pool runs exactly once, and it
   has run by the time waiting for the group's shutdown returns. Shutdown waiting returns only
   after every thread of the group has exited, work submitted after shutdown has begun is
   rejected, and no interleaving deadlocks; this includes an auxiliary worker's linger timeout
   expiring while a task is being handed to it."

  Model: `QV.Pool` — src/thread.rs as a transition system at lock granularity: two mutexes, three
  condition variables (waiter sets, nondeterministic `notify_one`, spurious wake-ups, timeouts
  that fire at any moment), per-thread program counters for ARBITRARILY MANY threads of every
  role, tasks tracked individually.  `Reachable cfg s` quantifies over every interleaving.
  `cfg.fixed = false` is the code before commit a7b63db (defect D11).

  Level: theorems about the model, for all interleavings and any number of threads and tasks (no
  bounded exploration).  The model is tied to the code by trace validation: the unmodified
  src/thread.rs runs under a controlled scheduler and every logged execution must be a path of
  `QV.Pool.next` (group `pool`).  PARTIAL with respect to the real runtime: std::sync::{Mutex,
  Condvar}, the OS scheduler and real time are assumed to behave like the model's mutexes,
  condvars and `timeout` steps (see `assumptions` in tools/props.py).
-/
import QV.Proofs.PoolProgress

namespace QV.C29
open QV QV.Pool

/-- `available_workers` is exactly the number of registered workers — those waiting on
    `task_wakeup`, just woken, or re-checking the queue — plus the workers that left on shutdown
    without decrementing (which only exist once the pool is shutting down). -/
theorem C29_available_counts (cfg : Cfg) (hf : cfg.fixed = true) (s : State) (hr : Reachable cfg s) :
    s.available = s.threads.countP isReg + s.stale ∧ (0 < s.stale → s.pShutting = true) :=
  ⟨(cinv_reachable hf hr).avail, (cinv_reachable hf hr).stale⟩

/-- **The invariant D11 broke.**  In every reachable state of the repaired code, every queued task
    is covered by a registered worker that is awake (woken by a notification, a timeout or
    spuriously, or already holding the pool mutex) and that will look at the queue before it
    deregisters. -/
theorem C29_queue_covered (cfg : Cfg) (hf : cfg.fixed = true) (s : State) (hr : Reachable cfg s) :
    s.queue.length ≤ s.threads.countP isAwake :=
  (cinv_reachable hf hr).queue

/-- `thread_count` is exactly the number of group threads that have not run `end_thread`. -/
theorem C29_thread_count (cfg : Cfg) (hf : cfg.fixed = true) (s : State) (hr : Reachable cfg s) :
    s.threadCount = s.threads.countP isLive :=
  (cinv_reachable hf hr).live

/-- mutual exclusion: at most one thread is inside a critical section of each mutex, and none
    when the mutex is free -/
theorem C29_mutual_exclusion (cfg : Cfg) (hf : cfg.fixed = true) (s : State) (hr : Reachable cfg s) :
    s.threads.countP holdsP = lockN s.pLock ∧ s.threads.countP holdsG = lockN s.gLock ∧
    s.threads.countP holdsP ≤ 1 ∧ s.threads.countP holdsG ≤ 1 := by
  have h := cinv_reachable hf hr
  exact ⟨h.lockP, h.lockG, h.lockP ▸ lockN_le_one _, h.lockG ▸ lockN_le_one _⟩

/-- the mutex a thread's next `acq` step takes -/
inductive LockId | G | P deriving DecidableEq

def wants : Local → Option LockId
  | .spWantG _ | .sosWantG _ | .shWantG | .pshWantG | .awWantG | .endWantG | .rhWantG _ => some .G
  | .subWantP _ | .sosWantP _ | .shInG | .pshWantP | .wWantP _ | .wWoken _ _ => some .P
  | _ => none

/-- `wants` is what `acq` does: a successful `acq t` takes the lock `wants` names -/
theorem C29_acq_takes_wanted (s s' : State) (t : Nat) (h : nextAcq s t = some s') :
    ∃ l, s.threads[t]? = some l ∧
      ((wants l = some .G ∧ s.gLock = none ∧ s'.gLock = some t ∧ s'.pLock = s.pLock) ∨
       (wants l = some .P ∧ s.pLock = none ∧ s'.pLock = some t ∧ s'.gLock = s.gLock)) := by
  unfold nextAcq at h
  cases hg : s.threads[t]? with
  | none => simp [hg] at h
  | some l =>
    refine ⟨l, rfl, ?_⟩
    simp only [hg] at h
    cases l <;> simp at h
    all_goals (
      obtain ⟨hgd, rfl⟩ := h
      simp [wants, State.setT, hgd])

/-- **Lock order group → pool.**  No thread ever waits for the group mutex while holding the pool
    mutex; the only nested acquisition is the pool mutex inside the group mutex
    (`ThreadGroup::shut_down`).  Hence there is no cycle in the wait-for graph of the mutexes. -/
theorem C29_lock_order (l : Local) :
    (holdsP l = true → wants l = none) ∧
    (holdsG l = true → wants l ≠ some .G) ∧
    (holdsG l = true → wants l = some .P → holdsP l = false) := by
  cases l <;> simp [holdsP, holdsG, wants]

/-- a task carried by a thread of the group keeps that thread alive -/
theorem live_of_expect {u k : Nat} {l : Local} {st : Status} (h : expect u l = some (k, st))
    (hst : st = .handed u ∨ st = .running u) : isLive l = true := by
  cases l <;> simp [expect] at h <;> try rfl
  all_goals (obtain ⟨_, rfl⟩ := h; rcases hst with h | h <;> cases h)

/-- **What `await_shutdown` observes.**  In every reachable state with `thread_count = 0` the
    queue is empty and every accepted task is done (has run to completion). -/
theorem C29_accepted_done_when_no_threads (cfg : Cfg) (hf : cfg.fixed = true) (s : State) (hr : Reachable cfg s)
    (h0 : s.threadCount = 0) :
    s.queue = [] ∧ ∀ (k : Nat) (st : Status), s.tasks[k]? = some st → st.accepted = true → st = .done := by
  have hc := cinv_reachable hf hr
  have ht : TInv s := tinv_reachable hr
  have hlive : s.threads.countP isLive = 0 := by rw [← hc.live]; exact h0
  have hawake : s.threads.countP isAwake = 0 := by
    have : s.threads.countP isAwake ≤ s.threads.countP isLive :=
      List.countP_mono_left (fun x _ hx => by cases x <;> simp_all [isAwake, isLive])
    omega
  have hq : s.queue = [] := by
    have := hc.queue
    rw [hawake] at this
    exact List.eq_nil_of_length_eq_zero (by omega)
  refine ⟨hq, ?_⟩
  intro k st hk hacc
  have nolive : ∀ (u : Nat) (l : Local), s.threads[u]? = some l → isLive l = false := by
    intro u l hu
    have := List.countP_eq_zero.mp hlive l (List.mem_of_getElem? hu)
    simpa using this
  cases st with
  | pending u => simp [Status.accepted] at hacc
  | rejected => simp [Status.accepted] at hacc
  | done => rfl
  | queued =>
    have := ht.q2 k hk
    rw [hq] at this; cases this
  | handed u =>
    have he := ht.st k _ u hk rfl
    unfold E at he
    cases hu : s.threads[u]? with
    | none => simp [hu] at he
    | some l =>
      simp [hu] at he
      have := live_of_expect he (Or.inl rfl)
      rw [nolive u l hu] at this; cases this
  | running u =>
    have he := ht.st k _ u hk rfl
    unfold E at he
    cases hu : s.threads[u]? with
    | none => simp [hu] at he
    | some l =>
      simp [hu] at he
      have := live_of_expect he (Or.inr rfl)
      rw [nolive u l hu] at this; cases this

/-- **`await_shutdown` returns only when shutdown is complete.**  The step by which an awaiter
    returns (it leaves `awInG` for `idle`) is enabled only in a state where shutdown has been
    initiated and no group thread is alive; every accepted task is then done and the queue is
    empty. -/
theorem C29_await_returns_only_when_done (cfg : Cfg) (hf : cfg.fixed = true) (s s' : State) (hr : Reachable cfg s)
    (t : Nat) (tg : Option Nat) (fl : Bool)
    (hat : s.threads[t]? = some .awInG) (hstep : next cfg s (.rel t tg fl) = some s')
    (hret : s'.threads[t]? = some .idle) :
    s.gShutting = true ∧ s.threadCount = 0 ∧ s.threads.countP isLive = 0 ∧ s.queue = [] ∧
    ∀ (k : Nat) (st : Status), s.tasks[k]? = some st → st.accepted = true → st = .done := by
  have hcond : s.gShutting = true ∧ s.threadCount = 0 := by
    simp only [next, nextRel, hat] at hstep
    by_cases hc : (s.gShutting && s.threadCount == 0) = true
    · simpa using hc
    · simp only [hc] at hstep
      cases tg <;> simp at hstep
      subst hstep
      simp [State.setT, get_lt hat] at hret
  have hd := C29_accepted_done_when_no_threads cfg hf s hr hcond.2
  have hl := (cinv_reachable hf hr).live
  exact ⟨hcond.1, hcond.2, by omega, hd.1, hd.2⟩

/-- **Each task is started at most once**, and exactly once iff it is running or done: the
    per-task start counter is `1` for started tasks and `0` for all others, in every reachable
    state (of the repaired and of the pre-fix code alike). -/
theorem C29_run_at_most_once (cfg : Cfg) (s : State) (hr : Reachable cfg s) (k : Nat) (st : Status)
    (hk : s.tasks[k]? = some st) :
    s.runs[k]? = some (if st.started then 1 else 0) :=
  (tinv_reachable hr).runsOk k st hk

/-- **Each task is in exactly one place.**  A task recorded as pending / handed / running is
    carried by exactly the thread recorded (and that thread carries no other task); a queued task
    is in the queue exactly once; and conversely. -/
theorem C29_task_in_one_place (cfg : Cfg) (s : State) (hr : Reachable cfg s) :
    (∀ (k : Nat) (st : Status) (u : Nat), s.tasks[k]? = some st → st.holder = some u → E s.threads u = some (k, st)) ∧
    (∀ (u k : Nat) (st : Status), E s.threads u = some (k, st) → s.tasks[k]? = some st) ∧
    (∀ k, k ∈ s.queue ↔ s.tasks[k]? = some .queued) ∧ s.queue.Nodup := by
  have h := tinv_reachable hr
  exact ⟨h.st, h.th, fun k => ⟨h.q1 k, h.q2 k⟩, h.nodup⟩

/-- **Work submitted after shutdown has begun is rejected.**  A submitter whose check of
    `shutting_down` (its critical section) happens in a state where the pool's flag is set gets
    `Err(ShuttingDown)`: the task is marked rejected and never enters the queue. -/
theorem C29_rejected_when_shutting (cfg : Cfg) (s s' : State) (t k : Nat) (tg : Option Nat) (fl : Bool)
    (hat : s.threads[t]? = some (.subInP k) ∨ s.threads[t]? = some (.sosInP k))
    (hsh : s.pShutting = true) (hstep : next cfg s (.rel t tg fl) = some s') :
    s'.tasks = s.tasks.set k .rejected ∧ s'.queue = s.queue ∧ s'.threads[t]? = some .idle := by
  rcases hat with hat | hat <;>
    simp only [next, nextRel, hat, hsh] at hstep <;>
    cases tg <;> simp at hstep <;> subst hstep <;>
    simp [State.setT, setStatus, get_lt hat]

/-- … and `submit_or_spawn`'s fallback (`start_oneshot`) is refused once the group's flag is set -/
theorem C29_spawn_rejected_when_group_shutting (cfg : Cfg) (s s' : State) (t k : Nat) (l : Label)
    (hat : s.threads[t]? = some (.sosInG k)) (hsh : s.gShutting = true)
    (hl : l = .spawn t false ∨ l = .spawn t true ∨ ∃ tg fl, l = .rel t tg fl)
    (hstep : next cfg s l = some s') :
    s'.tasks = s.tasks.set k .rejected ∧ s'.threadCount = s.threadCount := by
  rcases hl with rfl | rfl | ⟨tg, fl, rfl⟩
  · simp [next, nextSpawn, hat, hsh] at hstep
  · simp [next, nextSpawn, hat, hsh] at hstep
  · simp only [next, nextRel, hat, hsh] at hstep
    cases tg <;> simp at hstep
    subst hstep
    simp [State.setT, setStatus]

/-- **Nothing is accepted once shutdown is complete.**  In every reachable state with
    `thread_count = 0` (what `await_shutdown` waits for), the pool either has its flag set or has
    no available worker: every later `submit` / `submit_or_spawn` check fails to queue, and the
    fallback `start_oneshot` is refused by the group's flag (`C29_spawn_rejected_when_group_shutting`). -/
theorem C29_no_queueing_when_complete (cfg : Cfg) (hf : cfg.fixed = true) (s : State) (hr : Reachable cfg s)
    (h0 : s.threadCount = 0) : s.pShutting = true ∨ s.available ≤ s.queue.length := by
  have hc := cinv_reachable hf hr
  have hlive : s.threads.countP isLive = 0 := by rw [← hc.live]; exact h0
  have hreg : s.threads.countP isReg ≤ s.threads.countP isLive :=
    List.countP_mono_left (fun x _ hx => by cases x <;> simp_all [isReg, isLive])
  by_cases hs : 0 < s.stale
  · exact Or.inl (hc.stale hs)
  · right
    have := hc.avail
    omega

/-! ### deadlock-freedom -/

/-- a thread that is legitimately waiting: nothing the pool owes it is outstanding -/
def Parked (s : State) : Local → Prop
  | .idle | .exited => True
  -- an idle permanent worker: no work, no shutdown
  | .wWait .perm => s.queue = [] ∧ s.pShutting = false
  -- a blocked `submit`: no worker is available, no shutdown
  | .subWait _ => s.pShutting = false ∧ s.available ≤ s.queue.length
  -- `await_shutdown`: shutdown is not complete
  | .awWait => ¬ (s.gShutting = true ∧ s.threadCount = 0)
  | _ => False

/-- **Statement of deadlock-freedom** (proved below as `C29_progress`): in every reachable state either some step that is not
    a pure environment step (arrival, API call, spurious wake-up) is enabled — timeouts count as
    enabled steps: time passes — or every thread is idle, has exited, or is waiting legitimately
    (so no wake-up has been lost). -/
def C29_progress_full : Prop :=
  ∀ (cfg : Cfg), cfg.fixed = true → ∀ s, Reachable cfg s →
    Enabled cfg s ∨ ∀ (t : Nat) (l : Local), s.threads[t]? = some l → Parked s l

theorem b2n_eq_one {b : Bool} (h : b2n b = 1) : b = true := by cases b <;> simp_all
theorem b2n_eq_zero {b : Bool} (h : b2n b = 0) : b = false := by cases b <;> simp_all

/-- the environment assumption on `ThreadPool::shut_down` is maintained by the model's call guards:
    a pool shutter inside its group section still finds the pool registered -/
theorem C29_pool_shutter_finds_pool (cfg : Cfg) (hf : cfg.fixed = true) (s : State) (hr : Reachable cfg s)
    (t : Nat) (hg : s.threads[t]? = some Local.pshInG) : s.hasPool = true := by
  have hw := winv_reachable hf hr
  have hpos := countP_pos_get isPshEarly hg
  simp only [isPshEarly, ↓reduceIte] at hpos
  rcases hw.f4 with h | ⟨h, _⟩
  · omega
  · exact b2n_eq_one h

/-- **No deadlock on the mutexes.**  In every reachable state in which some thread holds or is
    waiting for a mutex, a non-environment step is enabled: the holder of the pool mutex can always
    finish its critical section, the holder of the group mutex can finish or needs only the pool
    mutex, and a free mutex can be taken (mutual exclusion + lock order group → pool). -/
theorem C29_no_lock_deadlock (cfg : Cfg) (hf : cfg.fixed = true) (s : State) (hr : Reachable cfg s)
    (t : Nat) (l : Local) (hg : s.threads[t]? = some l)
    (hl : wantsG l = true ∨ wantsP l = true ∨ holdsP l = true ∨ holdsG l = true) : Enabled cfg s :=
  lock_progress cfg s (cinv_reachable hf hr) (fun u hu => C29_pool_shutter_finds_pool cfg hf s hr u hu) t l hg hl

/-- threads that are running a task, or whose timed wait can time out, can always step too -/
theorem C29_runner_or_timed_waiter_can_step (cfg : Cfg) (s : State) (t : Nat) (l : Local)
    (hg : s.threads[t]? = some l)
    (hl : (∃ w k, l = .wRun w k) ∨ (∃ w k, l = .wRunning w k) ∨ (∃ k, l = .auxStart k) ∨
          (∃ k, l = .auxRunning k) ∨ l = .wWait .aux ∨ l = .rhWait) : Enabled cfg s := by
  have mk : ∀ lab : Label, lab.isEnv = false → (∃ s', next cfg s lab = some s') → Enabled cfg s :=
    fun lab he ⟨s', h⟩ => ⟨lab, s', he, h⟩
  rcases hl with ⟨w, k, rfl⟩ | ⟨w, k, rfl⟩ | ⟨k, rfl⟩ | ⟨k, rfl⟩ | rfl | rfl
  · exact mk (.run t) rfl (by simp [next, nextRun, hg])
  · exact mk (.fin t) rfl (by simp [next, nextFin, hg])
  · exact mk (.run t) rfl (by simp [next, nextRun, hg])
  · exact mk (.fin t) rfl (by simp [next, nextFin, hg])
  · exact mk (.timeout t) rfl (by simp [next, nextTimeout, hg])
  · exact mk (.timeout t) rfl (by simp [next, nextTimeout, hg])

/-- the only states without an enabled non-environment step consist of threads that are idle,
    exited, or blocked on a condition variable without a timeout -/
theorem C29_stuck_states_are_condvar_waits (cfg : Cfg) (hf : cfg.fixed = true) (s : State) (hr : Reachable cfg s)
    (hstuck : ¬ Enabled cfg s) (t : Nat) (l : Local) (hg : s.threads[t]? = some l) :
    l = .idle ∨ l = .exited ∨ l = .wWait .perm ∨ (∃ k, l = .subWait k) ∨ l = .awWait := by
  have h1 := fun h => hstuck (C29_no_lock_deadlock cfg hf s hr t l hg h)
  have h2 := fun h => hstuck (C29_runner_or_timed_waiter_can_step cfg s t l hg h)
  cases l <;> simp [wantsG, wantsP, holdsP, holdsG] at h1 h2 ⊢
  case wWait w => cases w <;> simp at h2 ⊢

theorem count_zero_of_stuck (cfg : Cfg) (hf : cfg.fixed = true) (s : State) (hr : Reachable cfg s)
    (hstuck : ¬ Enabled cfg s) (p : Local → Bool)
    (hp : p .idle = false ∧ p .exited = false ∧ p (.wWait .perm) = false ∧ (∀ k, p (.subWait k) = false) ∧ p .awWait = false) :
    s.threads.countP p = 0 := by
  rw [List.countP_eq_zero]
  intro a ha hw
  obtain ⟨u, hu⟩ := List.mem_iff_getElem?.mp ha
  rcases C29_stuck_states_are_condvar_waits cfg hf s hr hstuck u a hu with rfl | rfl | rfl | ⟨k, rfl⟩ | rfl
  · rw [hp.1] at hw; cases hw
  · rw [hp.2.1] at hw; cases hw
  · rw [hp.2.2.1] at hw; cases hw
  · rw [hp.2.2.2.1 k] at hw; cases hw
  · rw [hp.2.2.2.2] at hw; cases hw

/-- **Deadlock-freedom (full statement proved).**  Under every interleaving, in every reachable
    state of the repaired code, either some step that is not a pure environment step is enabled,
    or every thread is idle, has exited, or is waiting *legitimately*: a permanent worker with an
    empty queue and no shutdown; a blocked `submit` with no available worker and no shutdown; an
    awaiter while shutdown is not complete.  No wake-up is ever lost, and no lock cycle exists.
    Assumptions (see tools/props.py): Mesa condition variables whose `notify_one` wakes a waiter
    if there is one; timeouts eventually fire (they are ordinary steps); tasks terminate. -/
theorem C29_progress : C29_progress_full := by
  intro cfg hf s hr
  by_cases hstuck : Enabled cfg s
  · exact Or.inl hstuck
  right
  intro t l hg
  have hc := cinv_reachable hf hr
  have hw := winv_reachable hf hr
  have zero := count_zero_of_stuck cfg hf s hr hstuck
  have hAwake : s.threads.countP isAwake = 0 := zero isAwake (by simp [isAwake])
  have hSA : s.threads.countP isSubAwake = 0 := zero isSubAwake (by simp [isSubAwake])
  have hSM : s.threads.countP isShMid = 0 := zero isShMid (by simp [isShMid])
  have hq : s.queue = [] := List.eq_nil_of_length_eq_zero (by have := hc.queue; omega)
  have b1 := b2n_le_one s.pShutting
  have b2 := b2n_le_one s.gShutting
  rcases C29_stuck_states_are_condvar_waits cfg hf s hr hstuck t l hg with rfl | rfl | rfl | ⟨k, rfl⟩ | rfl
  · trivial
  · trivial
  · have hpos := countP_pos_get isWWait hg
    simp only [isWWait, ↓reduceIte] at hpos
    refine ⟨hq, b2n_eq_zero ?_⟩
    rcases hw.w1 with h | h <;> omega
  · have hpos := countP_pos_get isSubWait hg
    simp only [isSubWait, ↓reduceIte] at hpos
    have hps : b2n s.pShutting = 0 := by rcases hw.w2 with h | h <;> omega
    refine ⟨b2n_eq_zero hps, ?_⟩
    rcases hw.w3 with h | h | h <;> omega
  · have hpos := countP_pos_get isAwWait hg
    simp only [isAwWait, ↓reduceIte] at hpos
    intro ⟨h1, h2⟩
    have : b2n s.gShutting = 1 := b2n_of_true h1
    rcases hw.w4 with h | h | h | h <;> omega

/-! ### the defect repaired by a7b63db (D11) -/

/-- the witness schedule: an auxiliary worker lingers (registered, asleep with a timeout); its
    timeout fires; a submitter counts it as available, queues task 1 and notifies nobody; the
    worker re-acquires the mutex, sees `timed_out()`, deregisters and exits without looking at the
    queue; shutdown completes with the accepted task 1 still queued. -/
def d11Schedule : List Label :=
  [.arrive, .arrive, .callStartPool 0 0, .acq 0, .rel 0 none false,
   .callSos 0, .acq 0, .rel 0 none false, .acq 0, .spawn 0 false, .rel 0 none false,
   .run 2, .fin 2, .acq 2, .rel 2 none false, .timeout 2,
   .callSos 1, .acq 1, .rel 1 none false,
   .acq 2, .rel 2 none false, .acq 2, .rel 2 none false,
   .callShutdown 0, .acq 0, .acq 0, .rel 0 none false, .rel 0 none false]

theorem reachable_of_runLabels (cfg : Cfg) : ∀ (ls : List Label) (s s' : State), Reachable cfg s →
    runLabels cfg s ls = some s' → Reachable cfg s'
  | [], s, s', hr, h => by simp [runLabels] at h; subst h; exact hr
  | l :: ls, s, s', hr, h => by
    simp only [runLabels] at h
    cases hn : next cfg s l with
    | none => simp [hn] at h
    | some s1 =>
      simp only [hn] at h
      exact reachable_of_runLabels cfg ls s1 s' (Reachable.step hr ⟨l, hn⟩) h

/-- **Before a7b63db the bad state is reachable**: with the pre-fix transition relation
    (`fixed := false`) the schedule above leads to a state in which shutdown is complete
    (`thread_count = 0`, `shutting_down`), yet the accepted task 1 is still in the queue and has
    never been started. -/
theorem C29_buggy_strands_a_task :
    ∃ s, Reachable { linger := true, fixed := false } s ∧
      s.gShutting = true ∧ s.threadCount = 0 ∧ s.queue = [1] ∧
      s.tasks[1]? = some .queued ∧ s.runs[1]? = some 0 ∧ ¬ (s.queue.length ≤ s.threads.countP isAwake) := by
  have h : ∃ s, runLabels { linger := true, fixed := false } init d11Schedule = some s ∧
      s.gShutting = true ∧ s.threadCount = 0 ∧ s.queue = [1] ∧
      s.tasks[1]? = some .queued ∧ s.runs[1]? = some 0 ∧ ¬ (s.queue.length ≤ s.threads.countP isAwake) := by
    decide
  obtain ⟨s, hrun, rest⟩ := h
  exact ⟨s, reachable_of_runLabels _ _ _ _ Reachable.init hrun, rest⟩

/-- **With the current code it is not**: no reachable state of the repaired transition relation
    has `thread_count = 0` and a non-empty queue, or an accepted task that is not done. -/
theorem C29_fixed_never_strands (s : State) (hr : Reachable { linger := true, fixed := true } s)
    (h0 : s.threadCount = 0) : s.queue = [] ∧ ∀ (k : Nat) (st : Status), s.tasks[k]? = some st → st.accepted = true → st = .done :=
  C29_accepted_done_when_no_threads _ rfl s hr h0

/-- the same schedule is not even a path of the repaired relation: the woken worker takes the task -/
example : runLabels { linger := true, fixed := true } init d11Schedule = none := by decide

/-- non-vacuity: the repaired relation does reach states with completed shutdown and done tasks
    (the schedule in which the worker, after its timeout, finds the queued task and runs it) -/
example : ∃ s, runLabels { linger := true, fixed := true } init
      [.arrive, .arrive, .callStartPool 0 0, .acq 0, .rel 0 none false,
       .callSos 0, .acq 0, .rel 0 none false, .acq 0, .spawn 0 false, .rel 0 none false,
       .run 2, .fin 2, .acq 2, .rel 2 none false, .timeout 2,
       .callSos 1, .acq 1, .rel 1 none false,
       .acq 2, .rel 2 none false, .run 2, .fin 2,
       .callShutdown 0, .acq 0, .acq 0, .rel 0 none false, .rel 0 none false,
       .acq 2, .rel 2 none false, .acq 2, .rel 2 none false,
       .callAwait 1, .acq 1, .rel 1 none false] = some s ∧
      s.gShutting = true ∧ s.threadCount = 0 ∧ s.queue = [] ∧ s.tasks = [.done, .done] ∧ s.runs = [1, 1] := by
  decide

end QV.C29
