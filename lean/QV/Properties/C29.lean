/-
  C29 — Worker pools run every accepted task and shut down cleanly.

  "Under every thread interleaving, each task accepted by a thread pool runs exactly once, and it
   has run by the time waiting for the group's shutdown returns. Shutdown waiting returns only
   after every thread of the group has exited, work submitted after shutdown has begun is
   rejected, and no interleaving deadlocks; this includes an auxiliary worker's linger timeout
   expiring while a task is being handed to it."

  Model: `QV.Pool` — src/thread.rs as a transition system at lock granularity: two mutexes, three
  condition variables (waiter sets, nondeterministic `notify_one`, spurious wake-ups, timeouts
  that fire at any moment), per-thread program counters for ARBITRARILY MANY threads of every
  role, tasks tracked individually.  `Reachable cfg s` quantifies over every interleaving.
  `cfg.fixed = false` is the code before commit a7b63db (defect D11).

  Level: theorems about the model, for all interleavings and any number of threads and tasks (no
  bounded exploration).  The model is tied to the code by trace validation: the unmodified
  src/thread.rs runs under a controlled scheduler and every logged execution must be a path of
  `QV.Pool.next` (group `pool`).  PARTIAL with respect to the real runtime: std::sync::{Mutex,
  Condvar}, the OS scheduler and real time are assumed to behave like the model's mutexes,
  condvars and `timeout` steps (see `assumptions` in tools/props.py).
-/
import QV.Proofs.PoolTasks

namespace QV.C29
open QV QV.Pool

/-- `available_workers` is exactly the number of registered workers — those waiting on
    `task_wakeup`, just woken, or re-checking the queue — plus the workers that left on shutdown
    without decrementing (which only exist once the pool is shutting down). -/
theorem C29_available_counts (cfg : Cfg) (hf : cfg.fixed = true) (s : State) (hr : Reachable cfg s) :
    s.available = s.threads.countP isReg + s.stale ∧ (0 < s.stale → s.pShutting = true) :=
  ⟨(cinv_reachable hf hr).avail, (cinv_reachable hf hr).stale⟩

/-- **The invariant D11 broke.**  In every reachable state of the repaired code, every queued task
    is covered by a registered worker that is awake (woken by a notification, a timeout or
    spuriously, or already holding the pool mutex) and that will look at the queue before it
    deregisters. -/
theorem C29_queue_covered (cfg : Cfg) (hf : cfg.fixed = true) (s : State) (hr : Reachable cfg s) :
    s.queue.length ≤ s.threads.countP isAwake :=
  (cinv_reachable hf hr).queue

/-- `thread_count` is exactly the number of group threads that have not run `end_thread`. -/
theorem C29_thread_count (cfg : Cfg) (hf : cfg.fixed = true) (s : State) (hr : Reachable cfg s) :
    s.threadCount = s.threads.countP isLive :=
  (cinv_reachable hf hr).live

/-- mutual exclusion: at most one thread is inside a critical section of each mutex, and none
    when the mutex is free -/
theorem C29_mutual_exclusion (cfg : Cfg) (hf : cfg.fixed = true) (s : State) (hr : Reachable cfg s) :
    s.threads.countP holdsP = lockN s.pLock ∧ s.threads.countP holdsG = lockN s.gLock ∧
    s.threads.countP holdsP ≤ 1 ∧ s.threads.countP holdsG ≤ 1 := by
  have h := cinv_reachable hf hr
  exact ⟨h.lockP, h.lockG, h.lockP ▸ lockN_le_one _, h.lockG ▸ lockN_le_one _⟩

/-- the mutex a thread's next `acq` step takes -/
inductive LockId | G | P deriving DecidableEq

def wants : Local → Option LockId
  | .spWantG _ | .sosWantG _ | .shWantG | .pshWantG | .awWantG | .endWantG | .rhWantG _ => some .G
  | .subWantP _ | .sosWantP _ | .shInG | .pshWantP | .wWantP _ | .wWoken _ _ => some .P
  | _ => none

/-- `wants` is what `acq` does: a successful `acq t` takes the lock `wants` names -/
theorem C29_acq_takes_wanted (s s' : State) (t : Nat) (h : nextAcq s t = some s') :
    ∃ l, s.threads[t]? = some l ∧
      ((wants l = some .G ∧ s.gLock = none ∧ s'.gLock = some t ∧ s'.pLock = s.pLock) ∨
       (wants l = some .P ∧ s.pLock = none ∧ s'.pLock = some t ∧ s'.gLock = s.gLock)) := by
  unfold nextAcq at h
  cases hg : s.threads[t]? with
  | none => simp [hg] at h
  | some l =>
    refine ⟨l, rfl, ?_⟩
    simp only [hg] at h
    cases l <;> simp at h
    all_goals (
      obtain ⟨hgd, rfl⟩ := h
      simp [wants, State.setT, hgd])

/-- **Lock order group → pool.**  No thread ever waits for the group mutex while holding the pool
    mutex; the only nested acquisition is the pool mutex inside the group mutex
    (`ThreadGroup::shut_down`).  Hence there is no cycle in the wait-for graph of the mutexes. -/
theorem C29_lock_order (l : Local) :
    (holdsP l = true → wants l = none) ∧
    (holdsG l = true → wants l ≠ some .G) ∧
    (holdsG l = true → wants l = some .P → holdsP l = false) := by
  cases l <;> simp [holdsP, holdsG, wants]

/-- a task carried by a thread of the group keeps that thread alive -/
theorem live_of_expect {u k : Nat} {l : Local} {st : Status} (h : expect u l = some (k, st))
    (hst : st = .handed u ∨ st = .running u) : isLive l = true := by
  cases l <;> simp [expect] at h <;> try rfl
  all_goals (obtain ⟨_, rfl⟩ := h; rcases hst with h | h <;> cases h)

/-- **What `await_shutdown` observes.**  In every reachable state with `thread_count = 0` the
    queue is empty and every accepted task is done (has run to completion). -/
theorem C29_accepted_done_when_no_threads (cfg : Cfg) (hf : cfg.fixed = true) (s : State) (hr : Reachable cfg s)
    (h0 : s.threadCount = 0) :
    s.queue = [] ∧ ∀ (k : Nat) (st : Status), s.tasks[k]? = some st → st.accepted = true → st = .done := by
  have hc := cinv_reachable hf hr
  have ht : TInv s := tinv_reachable hr
  have hlive : s.threads.countP isLive = 0 := by rw [← hc.live]; exact h0
  have hawake : s.threads.countP isAwake = 0 := by
    have : s.threads.countP isAwake ≤ s.threads.countP isLive :=
      List.countP_mono_left (fun x _ hx => by cases x <;> simp_all [isAwake, isLive])
    omega
  have hq : s.queue = [] := by
    have := hc.queue
    rw [hawake] at this
    exact List.eq_nil_of_length_eq_zero (by omega)
  refine ⟨hq, ?_⟩
  intro k st hk hacc
  have nolive : ∀ (u : Nat) (l : Local), s.threads[u]? = some l → isLive l = false := by
    intro u l hu
    have := List.countP_eq_zero.mp hlive l (List.mem_of_getElem? hu)
    simpa using this
  cases st with
  | pending u => simp [Status.accepted] at hacc
  | rejected => simp [Status.accepted] at hacc
  | done => rfl
  | queued =>
    have := ht.q2 k hk
    rw [hq] at this; cases this
  | handed u =>
    have he := ht.st k _ u hk rfl
    unfold E at he
    cases hu : s.threads[u]? with
    | none => simp [hu] at he
    | some l =>
      simp [hu] at he
      have := live_of_expect he (Or.inl rfl)
      rw [nolive u l hu] at this; cases this
  | running u =>
    have he := ht.st k _ u hk rfl
    unfold E at he
    cases hu : s.threads[u]? with
    | none => simp [hu] at he
    | some l =>
      simp [hu] at he
      have := live_of_expect he (Or.inr rfl)
      rw [nolive u l hu] at this; cases this

/-- **`await_shutdown` returns only when shutdown is complete.**  The step by which an awaiter
    returns (it leaves `awInG` for `idle`) is enabled only in a state where shutdown has been
    initiated and no group thread is alive; every accepted task is then done and the queue is
    empty. -/
theorem C29_await_returns_only_when_done (cfg : Cfg) (hf : cfg.fixed = true) (s s' : State) (hr : Reachable cfg s)
    (t : Nat) (tg : Option Nat) (fl : Bool)
    (hat : s.threads[t]? = some .awInG) (hstep : next cfg s (.rel t tg fl) = some s')
    (hret : s'.threads[t]? = some .idle) :
    s.gShutting = true ∧ s.threadCount = 0 ∧ s.threads.countP isLive = 0 ∧ s.queue = [] ∧
    ∀ (k : Nat) (st : Status), s.tasks[k]? = some st → st.accepted = true → st = .done := by
  have hcond : s.gShutting = true ∧ s.threadCount = 0 := by
    simp only [next, nextRel, hat] at hstep
    by_cases hc : (s.gShutting && s.threadCount == 0) = true
    · simpa using hc
    · simp only [hc] at hstep
      cases tg <;> simp at hstep
      subst hstep
      simp [State.setT, get_lt hat] at hret
  have hd := C29_accepted_done_when_no_threads cfg hf s hr hcond.2
  have hl := (cinv_reachable hf hr).live
  exact ⟨hcond.1, hcond.2, by omega, hd.1, hd.2⟩

/-- **Each task is started at most once**, and exactly once iff it is running or done: the
    per-task start counter is `1` for started tasks and `0` for all others, in every reachable
    state (of the repaired and of the pre-fix code alike). -/
theorem C29_run_at_most_once (cfg : Cfg) (s : State) (hr : Reachable cfg s) (k : Nat) (st : Status)
    (hk : s.tasks[k]? = some st) :
    s.runs[k]? = some (if st.started then 1 else 0) :=
  (tinv_reachable hr).runsOk k st hk

/-- **Each task is in exactly one place.**  A task recorded as pending / handed / running is
    carried by exactly the thread recorded (and that thread carries no other task); a queued task
    is in the queue exactly once; and conversely. -/
theorem C29_task_in_one_place (cfg : Cfg) (s : State) (hr : Reachable cfg s) :
    (∀ (k : Nat) (st : Status) (u : Nat), s.tasks[k]? = some st → st.holder = some u → E s.threads u = some (k, st)) ∧
    (∀ (u k : Nat) (st : Status), E s.threads u = some (k, st) → s.tasks[k]? = some st) ∧
    (∀ k, k ∈ s.queue ↔ s.tasks[k]? = some .queued) ∧ s.queue.Nodup := by
  have h := tinv_reachable hr
  exact ⟨h.st, h.th, fun k => ⟨h.q1 k, h.q2 k⟩, h.nodup⟩

/-- **Work submitted after shutdown has begun is rejected.**  A submitter whose check of
    `shutting_down` (its critical section) happens in a state where the pool's flag is set gets
    `Err(ShuttingDown)`: the task is marked rejected and never enters the queue. -/
theorem C29_rejected_when_shutting (cfg : Cfg) (s s' : State) (t k : Nat) (tg : Option Nat) (fl : Bool)
    (hat : s.threads[t]? = some (.subInP k) ∨ s.threads[t]? = some (.sosInP k))
    (hsh : s.pShutting = true) (hstep : next cfg s (.rel t tg fl) = some s') :
    s'.tasks = s.tasks.set k .rejected ∧ s'.queue = s.queue ∧ s'.threads[t]? = some .idle := by
  rcases hat with hat | hat <;>
    simp only [next, nextRel, hat, hsh] at hstep <;>
    cases tg <;> simp at hstep <;> subst hstep <;>
    simp [State.setT, setStatus, get_lt hat]

/-- … and `submit_or_spawn`'s fallback (`start_oneshot`) is refused once the group's flag is set -/
theorem C29_spawn_rejected_when_group_shutting (cfg : Cfg) (s s' : State) (t k : Nat) (l : Label)
    (hat : s.threads[t]? = some (.sosInG k)) (hsh : s.gShutting = true)
    (hl : l = .spawn t false ∨ l = .spawn t true ∨ ∃ tg fl, l = .rel t tg fl)
    (hstep : next cfg s l = some s') :
    s'.tasks = s.tasks.set k .rejected ∧ s'.threadCount = s.threadCount := by
  rcases hl with rfl | rfl | ⟨tg, fl, rfl⟩
  · simp [next, nextSpawn, hat, hsh] at hstep
  · simp [next, nextSpawn, hat, hsh] at hstep
  · simp only [next, nextRel, hat, hsh] at hstep
    cases tg <;> simp at hstep
    subst hstep
    simp [State.setT, setStatus]

/-! ### the defect repaired by a7b63db (D11) -/

/-- the witness schedule: an auxiliary worker lingers (registered, asleep with a timeout); its
    timeout fires; a submitter counts it as available, queues task 1 and notifies nobody; the
    worker re-acquires the mutex, sees `timed_out()`, deregisters and exits without looking at the
    queue; shutdown completes with the accepted task 1 still queued. -/
def d11Schedule : List Label :=
  [.arrive, .arrive, .callStartPool 0 0, .acq 0, .rel 0 none false,
   .callSos 0, .acq 0, .rel 0 none false, .acq 0, .spawn 0 false, .rel 0 none false,
   .run 2, .fin 2, .acq 2, .rel 2 none false, .timeout 2,
   .callSos 1, .acq 1, .rel 1 none false,
   .acq 2, .rel 2 none false, .acq 2, .rel 2 none false,
   .callShutdown 0, .acq 0, .acq 0, .rel 0 none false, .rel 0 none false]

theorem reachable_of_runLabels (cfg : Cfg) : ∀ (ls : List Label) (s s' : State), Reachable cfg s →
    runLabels cfg s ls = some s' → Reachable cfg s'
  | [], s, s', hr, h => by simp [runLabels] at h; subst h; exact hr
  | l :: ls, s, s', hr, h => by
    simp only [runLabels] at h
    cases hn : next cfg s l with
    | none => simp [hn] at h
    | some s1 =>
      simp only [hn] at h
      exact reachable_of_runLabels cfg ls s1 s' (Reachable.step hr ⟨l, hn⟩) h

/-- **Before a7b63db the bad state is reachable**: with the pre-fix transition relation
    (`fixed := false`) the schedule above leads to a state in which shutdown is complete
    (`thread_count = 0`, `shutting_down`), yet the accepted task 1 is still in the queue and has
    never been started. -/
theorem C29_buggy_strands_a_task :
    ∃ s, Reachable { linger := true, fixed := false } s ∧
      s.gShutting = true ∧ s.threadCount = 0 ∧ s.queue = [1] ∧
      s.tasks[1]? = some .queued ∧ s.runs[1]? = some 0 ∧ ¬ (s.queue.length ≤ s.threads.countP isAwake) := by
  have h : ∃ s, runLabels { linger := true, fixed := false } init d11Schedule = some s ∧
      s.gShutting = true ∧ s.threadCount = 0 ∧ s.queue = [1] ∧
      s.tasks[1]? = some .queued ∧ s.runs[1]? = some 0 ∧ ¬ (s.queue.length ≤ s.threads.countP isAwake) := by
    decide
  obtain ⟨s, hrun, rest⟩ := h
  exact ⟨s, reachable_of_runLabels _ _ _ _ Reachable.init hrun, rest⟩

/-- **With the current code it is not**: no reachable state of the repaired transition relation
    has `thread_count = 0` and a non-empty queue, or an accepted task that is not done. -/
theorem C29_fixed_never_strands (s : State) (hr : Reachable { linger := true, fixed := true } s)
    (h0 : s.threadCount = 0) : s.queue = [] ∧ ∀ (k : Nat) (st : Status), s.tasks[k]? = some st → st.accepted = true → st = .done :=
  C29_accepted_done_when_no_threads _ rfl s hr h0

/-- the same schedule is not even a path of the repaired relation: the woken worker takes the task -/
example : runLabels { linger := true, fixed := true } init d11Schedule = none := by decide

/-- non-vacuity: the repaired relation does reach states with completed shutdown and done tasks
    (the schedule in which the worker, after its timeout, finds the queued task and runs it) -/
example : ∃ s, runLabels { linger := true, fixed := true } init
      [.arrive, .arrive, .callStartPool 0 0, .acq 0, .rel 0 none false,
       .callSos 0, .acq 0, .rel 0 none false, .acq 0, .spawn 0 false, .rel 0 none false,
       .run 2, .fin 2, .acq 2, .rel 2 none false, .timeout 2,
       .callSos 1, .acq 1, .rel 1 none false,
       .acq 2, .rel 2 none false, .run 2, .fin 2,
       .callShutdown 0, .acq 0, .acq 0, .rel 0 none false, .rel 0 none false,
       .acq 2, .rel 2 none false, .acq 2, .rel 2 none false,
       .callAwait 1, .acq 1, .rel 1 none false] = some s ∧
      s.gShutting = true ∧ s.threadCount = 0 ∧ s.queue = [] ∧ s.tasks = [.done, .done] ∧ s.runs = [1, 1] := by
  decide

end QV.C29
