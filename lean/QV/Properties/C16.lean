/-
  C16 — Domain name text form, equality and ordering are consistent.

  "Rendering any domain name as text and parsing it back gives the identical wire form, and text
   parsing accepts exactly the absolute names of at most 255 octets with labels of at most 63
   octets. Name equality and hashing ignore ASCII case and nothing else, ordering is a total order
   consistent with equality that matches RFC 4034 §6.1 canonical order, and subdomain tests,
   superdomain extraction, label access and lowercasing agree with a reference model."

  Model: `QV.Model.Name` (mirrors src/name/mod.rs, label.rs, builder.rs, lowercase.rs); names are
  wire forms (`List UInt8`).  Spec: `QV.Spec.NameText` (names as label lists; grammar `Denotes`;
  `SameName`; `canonicalCmp`; `IsSubdomainOrEq`; `RefBuilder`).  `IsName w` (the spec's
  well-formedness: `w = toWire n` for a valid label list `n`) is the hypothesis on names; it is
  proved for everything the model produces, and `wfb` decides it (`C16_wfb_iff`).

  All theorems hold for all names / texts / builder states; none is bounded.
-/
import QV.Proofs.NameOrder

namespace QV.C16
open QV QV.Name QV.Spec.NameText
open QV.Codes (Text)

/-! ### 1. text form -/

/-- **Round trip (headline).** For every name, `Display` succeeds and parsing the text it prints
    yields the identical wire form (and the label-offset table of that wire form). -/
theorem C16_roundtrip (w : List UInt8) (h : IsName w) :
    ∃ t, displayName w = .ok t ∧ fromStr t = .ok ⟨w, labelOffsets w⟩ := by
  obtain ⟨n, hv, rfl⟩ := h
  exact ⟨textOf n, displayName_toWire n hv.1, by
    rw [labelOffsets_toWire n hv.1]; exact fromStr_textOf n hv⟩

/-- what `Display` prints denotes the name under the RFC 1035 §5.1 grammar -/
theorem C16_display_denotes (n : DName) (h : ValidName n) :
    ∃ t, displayName (toWire n) = .ok t ∧ Denotes t n :=
  ⟨textOf n, displayName_toWire n h.1, textOf_denotes n h.1⟩

/-- **Acceptance, exactly.** `from_str` accepts a text iff the text denotes (RFC 1035 §5.1 / RFC
    4343 grammar, absolute names only) a name with labels of 1..63 octets and at most 255 octets on
    the wire; the result is that name's wire form with the matching label-offset table. -/
theorem C16_fromStr_iff (s : Text) (r : Built) :
    fromStr s = .ok r ↔ ∃ n, Denotes s n ∧ ValidName n ∧ r = ⟨toWire n, labelOffsets (toWire n)⟩ := by
  rw [fromStr_iff]
  constructor
  · intro ⟨n, hp, hv, hr⟩
    exact ⟨n, parseText_denotes hp, hv, by rw [labelOffsets_toWire n hv.1]; exact hr⟩
  · intro ⟨n, hd, hv, hr⟩
    exact ⟨n, denotes_parseText hd, hv, by rw [← labelOffsets_toWire n hv.1]; exact hr⟩

/-- everything `from_str` returns is a well-formed name with a consistent offset table -/
theorem C16_fromStr_wf (s : Text) (r : Built) (h : fromStr s = .ok r) :
    IsName r.wire ∧ r.offsets = labelOffsets r.wire := by
  obtain ⟨n, _, hv, rfl⟩ := (C16_fromStr_iff s r).mp h
  exact ⟨⟨n, hv, rfl⟩, rfl⟩

/-- `from_str` never panics (no index out of range, no `ArrayVec` overflow) … -/
theorem C16_fromStr_no_panic (s : Text) : fromStr s ≠ .panic := fromStr_no_panic s

/-- … and reports an error exactly for the texts that denote no valid name -/
theorem C16_fromStr_err_iff (s : Text) :
    (∃ e, fromStr s = .err e) ↔ ¬ ∃ n, Denotes s n ∧ ValidName n := by
  constructor
  · intro ⟨e, he⟩ ⟨n, hd, hv⟩
    have := (C16_fromStr_iff s _).mpr ⟨n, hd, hv, rfl⟩
    rw [he] at this; cases this
  · intro hno
    cases h : fromStr s with
    | ok r =>
      obtain ⟨n, hd, hv, _⟩ := (C16_fromStr_iff s r).mp h
      exact absurd ⟨n, hd, hv⟩ hno
    | err e => exact ⟨e, rfl⟩
    | panic => exact absurd h (fromStr_no_panic s)

/-- the grammar is unambiguous: a text denotes at most one name -/
theorem C16_denotes_unique (s : Text) (n n' : DName) (h : Denotes s n) (h' : Denotes s n') : n = n' := by
  have a := denotes_parseText h
  have b := denotes_parseText h'
  rw [a] at b; cases b; rfl

/-- the executable text parser of the spec (the oracle of the correspondence check) is the grammar -/
theorem C16_parseText_iff (s : Text) (n : DName) : parseText s = some n ↔ Denotes s n :=
  (denotes_iff_parseText s n).symm

/-! ### 2. well-formedness -/

/-- the executable check used by the driver decides `IsName` -/
theorem C16_wfb_iff (w : List UInt8) : wfb w = true ↔ IsName w := wfb_iff w

/-- the wire form determines the labels: `labels()` returns them, null label last -/
theorem C16_labels (n : DName) (h : ValidName n) :
    labelsOf (toWire n) = allLabels n ∧ nLabels (toWire n) = n.length + 1 ∧
      labelOffsets (toWire n) = offsetsList n :=
  ⟨labelsOf_toWire n h.1, nLabels_toWire n h.1, labelOffsets_toWire n h.1⟩

theorem C16_toWire_injective (a b : DName) (ha : ValidName a) (hb : ValidName b)
    (h : toWire a = toWire b) : a = b := toWire_injective ha.1 hb.1 h

/-! ### 3. equality and hashing -/

/-- `eq` is the spec's equality: label lists equal after ASCII lower-casing -/
theorem C16_eq_spec (a b : DName) (ha : ValidName a) (hb : ValidName b) :
    nameEq (toWire a) (toWire b) = true ↔ SameName a b := nameEq_toWire a b ha.1 hb.1

/-- **Equality ignores ASCII case and nothing else**: two names are equal iff their wire forms
    are identical after lower-casing `A`–`Z` … -/
theorem C16_eq_iff_lower (a b : List UInt8) (ha : IsName a) (hb : IsName b) :
    nameEq a b = true ↔ a.map lowerU8 = b.map lowerU8 := by
  obtain ⟨x, hx, rfl⟩ := ha
  obtain ⟨y, hy, rfl⟩ := hb
  rw [nameEq_toWire x y hx.1 hy.1, map_lower_toWire x hx.1, map_lower_toWire y hy.1]
  unfold SameName
  constructor
  · intro h; rw [h]
  · intro h; exact toWire_injective (LabelsOK_lower hx.1) (LabelsOK_lower hy.1) h

/-- … iff the octet sequences `Hash` feeds to the hasher are identical (so `Hash` is consistent
    with `Eq`, and hashes *only* what `Eq` compares) … -/
theorem C16_eq_iff_hash (a b : List UInt8) (ha : IsName a) (hb : IsName b) :
    nameEq a b = true ↔ hashInput a = hashInput b := by
  obtain ⟨x, hx, rfl⟩ := ha
  obtain ⟨y, hy, rfl⟩ := hb
  rw [nameEq_toWire x y hx.1 hy.1, hashInput_toWire x hx.1, hashInput_toWire y hy.1]
  unfold SameName
  constructor
  · intro h; rw [h]
  · intro h; exact toWire_injective (LabelsOK_lower hx.1) (LabelsOK_lower hy.1) h

/-- … and the hash input is precisely the lower-cased wire form -/
theorem C16_hash_input (w : List UInt8) (h : IsName w) : hashInput w = w.map lowerU8 := by
  obtain ⟨n, hn, rfl⟩ := h
  rw [hashInput_toWire n hn.1, map_lower_toWire n hn.1]

/-- `eq` is an equivalence relation -/
theorem C16_eq_equivalence :
    (∀ a, IsName a → nameEq a a = true) ∧
    (∀ a b, IsName a → IsName b → nameEq a b = true → nameEq b a = true) ∧
    (∀ a b c, IsName a → IsName b → IsName c → nameEq a b = true → nameEq b c = true → nameEq a c = true) := by
  refine ⟨?_, ?_, ?_⟩
  · intro a ha; exact (C16_eq_iff_lower a a ha ha).mpr rfl
  · intro a b ha hb h
    exact (C16_eq_iff_lower b a hb ha).mpr ((C16_eq_iff_lower a b ha hb).mp h).symm
  · intro a b c ha hb hc h1 h2
    exact (C16_eq_iff_lower a c ha hc).mpr
      (((C16_eq_iff_lower a b ha hb).mp h1).trans ((C16_eq_iff_lower b c hb hc).mp h2))

/-! ### 4. ordering -/

/-- **`cmp` is RFC 4034 §6.1's canonical order** (labels right to left, as lower-cased unsigned
    octet strings, a proper prefix first) -/
theorem C16_cmp_spec (a b : DName) (ha : ValidName a) (hb : ValidName b) :
    nameCmp (toWire a) (toWire b) = canonicalCmp a b := nameCmp_toWire a b ha.1 hb.1

/-- `cmp` is consistent with `eq` -/
theorem C16_cmp_eq_iff (a b : List UInt8) (ha : IsName a) (hb : IsName b) :
    nameCmp a b = .eq ↔ nameEq a b = true := by
  obtain ⟨x, hx, rfl⟩ := ha
  obtain ⟨y, hy, rfl⟩ := hb
  rw [nameCmp_toWire x y hx.1 hy.1, nameEq_toWire x y hx.1 hy.1, canonicalCmp_eq_iff]

/-- antisymmetry / totality: swapping the arguments swaps the result (so exactly one of `<`, `=`,
    `>` holds, and `a < b ↔ b > a`) -/
theorem C16_cmp_swap (a b : List UInt8) (ha : IsName a) (hb : IsName b) :
    nameCmp a b = (nameCmp b a).swap := by
  obtain ⟨x, hx, rfl⟩ := ha
  obtain ⟨y, hy, rfl⟩ := hb
  rw [nameCmp_toWire x y hx.1 hy.1, nameCmp_toWire y x hy.1 hx.1]
  exact canonicalCmp_swap x y

/-- transitivity -/
theorem C16_cmp_trans (a b c : List UInt8) (ha : IsName a) (hb : IsName b) (hc : IsName c)
    (h1 : nameCmp a b = .lt) (h2 : nameCmp b c = .lt) : nameCmp a c = .lt := by
  obtain ⟨x, hx, rfl⟩ := ha
  obtain ⟨y, hy, rfl⟩ := hb
  obtain ⟨z, hz, rfl⟩ := hc
  rw [nameCmp_toWire _ _ hx.1 hy.1] at h1
  rw [nameCmp_toWire _ _ hy.1 hz.1] at h2
  rw [nameCmp_toWire _ _ hx.1 hz.1]
  exact canonicalCmp_trans x y z h1 h2

/-- equal names are indistinguishable by the order (with `C16_cmp_trans`: a total preorder whose
    equivalence is `eq`, i.e. a total order on names up to case) -/
theorem C16_cmp_congr (a b c : List UInt8) (ha : IsName a) (hb : IsName b) (hc : IsName c)
    (h : nameEq a b = true) : nameCmp a c = nameCmp b c := by
  obtain ⟨x, hx, rfl⟩ := ha
  obtain ⟨y, hy, rfl⟩ := hb
  obtain ⟨z, hz, rfl⟩ := hc
  rw [nameCmp_toWire _ _ hx.1 hz.1, nameCmp_toWire _ _ hy.1 hz.1]
  exact canonicalCmp_congr x y z ((nameEq_toWire x y hx.1 hy.1).mp h)

/-- `Label`'s own `Ord` is the lower-cased octet-string order -/
theorem C16_label_cmp (a b : List UInt8) : labelCmp a b = cmpOctetString (lowerLabel a) (lowerLabel b) :=
  labelCmp_eq a b

/-- `Label`'s own `Eq` ignores ASCII case and nothing else -/
theorem C16_label_eq (a b : List UInt8) : labelEq a b = true ↔ lowerLabel a = lowerLabel b := labelEq_iff a b

/-! ### 5. hierarchy, label access, lower-casing -/

theorem C16_subdomain (a b : DName) (ha : ValidName a) (hb : ValidName b) :
    eqOrSubdomainOf (toWire a) (toWire b) = true ↔ IsSubdomainOrEq a b :=
  eqOrSubdomainOf_toWire a b ha.1 hb.1

theorem C16_superdomain (n : DName) (h : ValidName n) (k : Nat) :
    Name.superdomain (toWire n) k = (Spec.NameText.superdomain n k).map toWire :=
  superdomain_toWire n h.1 k

/-- a superdomain of a name is a name -/
theorem C16_superdomain_wf (w : List UInt8) (h : IsName w) (k : Nat) (w' : List UInt8)
    (hs : Name.superdomain w k = some w') : IsName w' := by
  obtain ⟨n, hn, rfl⟩ := h
  rw [superdomain_toWire n hn.1 k] at hs
  unfold Spec.NameText.superdomain at hs
  split at hs
  · simp at hs; subst hs
    refine ⟨n.drop k, ⟨fun l hl => hn.1 l (List.mem_of_mem_drop hl), ?_⟩, rfl⟩
    have := hn.2
    conv at this => rw [← List.take_append_drop k n, wireLength_append]
    omega
  · simp at hs

theorem C16_index (n : DName) (h : ValidName n) (i : Nat) :
    index (toWire n) i = if i ≤ n.length then .ok ((allLabels n)[i]?.getD []) else .panic :=
  index_toWire n h.1 i

theorem C16_is_root (n : DName) (h : ValidName n) : isRoot (toWire n) = true ↔ n = [] :=
  isRoot_toWire n h.1

theorem C16_is_wildcard (n : DName) (h : ValidName n) :
    Name.isWildcard (toWire n) = .ok (Spec.NameText.isWildcard n) := isWildcard_toWire n h.1

theorem C16_wire_repr_to (n : DName) (h : ValidName n) (k : Nat) :
    wireReprTo (toWire n) k =
      if k = n.length + 1 then .ok (toWire n) else if k ≤ n.length then .ok (body (n.take k)) else .panic :=
  wireReprTo_toWire n h.1 k

theorem C16_wire_repr_from (n : DName) (h : ValidName n) (k : Nat) :
    wireReprFrom (toWire n) k =
      if k = n.length + 1 then .ok [] else if k ≤ n.length then .ok (toWire (n.drop k)) else .panic :=
  wireReprFrom_toWire n h.1 k

/-- lower-casing lower-cases every label, keeps the structure, and is the octet-wise lower-casing
    of the wire form; the result is a name equal (`eq`) to the original -/
theorem C16_lowercase (n : DName) (h : ValidName n) :
    makeAsciiLowercase (toWire n) = toWire (lowerName n) ∧
    makeAsciiLowercase (toWire n) = (toWire n).map lowerU8 ∧
    IsName (makeAsciiLowercase (toWire n)) ∧
    nameEq (makeAsciiLowercase (toWire n)) (toWire n) = true := by
  have e := makeAsciiLowercase_toWire n h.1
  have hv : ValidName (lowerName n) := ⟨LabelsOK_lower h.1, by rw [wireLength_lower]; exact h.2⟩
  refine ⟨e, by rw [e, map_lower_toWire n h.1], by rw [e]; exact ⟨_, hv, rfl⟩, ?_⟩
  rw [e, nameEq_toWire _ _ hv.1 h.1]
  exact lowerName_idem n

/-! ### 6. the builder refines the reference builder; its operations are atomic on error -/

/-- abstraction relation: the model builder `b` represents the reference state `rb` -/
def Abs (b : Builder) (rb : RefBuilder) : Prop := InvDC rb.done rb.cur ∧ b = stateOf rb.done rb.cur

theorem C16_builder_new : Abs Builder.new ⟨[], []⟩ := ⟨invDC_nil, new_eq⟩

theorem C16_builder_is_fully_qualified (b : Builder) (rb : RefBuilder) (h : Abs b rb) :
    b.isFullyQualified = rb.cur.isEmpty := by
  obtain ⟨_, rfl⟩ := h
  cases rb.cur <;> simp [Builder.isFullyQualified, stateOf]

/-- `try_push_slice` (and `try_push` = a one-octet slice): succeeds exactly when the reference
    builder does, to the corresponding state; on error the builder is unchanged -/
theorem C16_builder_push_slice (b : Builder) (rb : RefBuilder) (h : Abs b rb) (os : List UInt8) :
    match rb.pushSlice os with
    | .ok rb' => ∃ b', b.tryPushSlice os = (b', .ok ()) ∧ Abs b' rb'
    | .error _ => ∃ e, b.tryPushSlice os = (b, .err e) := by
  obtain ⟨hinv, rfl⟩ := h
  obtain ⟨done, cur⟩ := rb
  rw [tryPushSlice_stateOf]
  unfold RefBuilder.pushSlice
  rw [refSize_eq]
  simp only
  by_cases h63 : cur.length + os.length > 63
  · simp only [h63, ↓reduceIte]; exact ⟨_, rfl⟩
  · by_cases hsz : (body done).length + 1 + cur.length + os.length > 255
    · have : ¬ (body done).length + 1 + cur.length + os.length ≤ 255 := by omega
      simp only [h63, hsz, this, ↓reduceIte]; exact ⟨_, rfl⟩
    · have : (body done).length + 1 + cur.length + os.length ≤ 255 := by omega
      simp only [h63, hsz, this, ↓reduceIte]
      exact ⟨_, rfl, ⟨hinv.ok, by simp; omega, by simp; omega⟩, rfl⟩

theorem C16_builder_push (b : Builder) (rb : RefBuilder) (h : Abs b rb) (o : UInt8) :
    match rb.push o with
    | .ok rb' => ∃ b', b.tryPush o = (b', .ok ()) ∧ Abs b' rb'
    | .error _ => ∃ e, b.tryPush o = (b, .err e) := by
  obtain ⟨hinv, rfl⟩ := h
  obtain ⟨done, cur⟩ := rb
  rw [tryPush_stateOf]
  unfold RefBuilder.push RefBuilder.pushSlice
  rw [refSize_eq]
  simp only [List.length_cons, List.length_nil]
  by_cases h63 : cur.length ≥ 63
  · have : cur.length + (0 + 1) > 63 := by omega
    simp only [h63, this, ↓reduceIte]; exact ⟨_, rfl⟩
  · have n63 : ¬ cur.length + (0 + 1) > 63 := by omega
    by_cases hsz : (body done).length + 1 + cur.length < 255
    · have : ¬ (body done).length + 1 + cur.length + (0 + 1) > 255 := by omega
      simp only [h63, n63, hsz, this, ↓reduceIte]
      exact ⟨_, rfl, ⟨hinv.ok, by simp; omega, by simp; omega⟩, rfl⟩
    · have : (body done).length + 1 + cur.length + (0 + 1) > 255 := by omega
      simp only [h63, n63, hsz, this, ↓reduceIte]; exact ⟨_, rfl⟩

theorem C16_builder_next_label (b : Builder) (rb : RefBuilder) (h : Abs b rb) :
    match rb.nextLabel with
    | .ok rb' => ∃ b', b.nextLabel = (b', .ok ()) ∧ Abs b' rb'
    | .error _ => ∃ e, b.nextLabel = (b, .err e) := by
  obtain ⟨hinv, rfl⟩ := h
  obtain ⟨done, cur⟩ := rb
  rw [nextLabel_stateOf done cur hinv]
  unfold RefBuilder.nextLabel
  rw [refSize_eq]
  simp only [List.isEmpty_iff]
  by_cases hc : cur = []
  · simp only [hc, ↓reduceIte]; exact ⟨_, rfl⟩
  · have hpos : 0 < cur.length := List.length_pos_iff.mpr hc
    by_cases hsz : (body done).length + 1 + cur.length ≥ 255
    · have : (body done).length + 1 + cur.length + 1 > 255 := by omega
      simp only [hc, hsz, this, ↓reduceIte]; exact ⟨_, rfl⟩
    · have : ¬ (body done).length + 1 + cur.length + 1 > 255 := by omega
      simp only [hc, hsz, this, ↓reduceIte]
      refine ⟨_, rfl, ⟨LabelsOK_append.mpr ⟨hinv.ok, ?_⟩, by simp, by simp; omega⟩, rfl⟩
      intro l hl; simp at hl; subst hl; exact ⟨hpos, hinv.cl⟩

/-- `finish`: the reference builder's name, as a well-formed wire form with consistent offsets -/
theorem C16_builder_finish (b : Builder) (rb : RefBuilder) (h : Abs b rb) :
    match rb.finish with
    | .ok n => b.finish = .ok ⟨toWire n, labelOffsets (toWire n)⟩ ∧ ValidName n
    | .error _ => ∃ e, b.finish = .err e := by
  obtain ⟨hinv, rfl⟩ := h
  obtain ⟨done, cur⟩ := rb
  rw [finish_stateOf]
  unfold RefBuilder.finish
  simp only [List.isEmpty_iff]
  by_cases hc : cur = []
  · subst hc
    simp only [↓reduceIte]
    have hv : ValidName done := ⟨hinv.ok, by have := hinv.sz; simp [wireLength, ← body_length] at *; omega⟩
    exact ⟨by rw [labelOffsets_toWire done hinv.ok], hv⟩
  · simp only [hc, ↓reduceIte]; exact ⟨_, rfl⟩

/-- `finish_with_suffix`: the labels so far, the current (non-empty) label and the suffix's labels,
    if that fits in 255 octets — with a consistent offset table, and without panicking (no `u8`
    overflow in the offset addition, no `ArrayVec` overflow) -/
theorem C16_builder_finish_with_suffix (b : Builder) (rb : RefBuilder) (h : Abs b rb) (sfx : DName)
    (hs : ValidName sfx) :
    match rb.finishWithSuffix sfx with
    | .ok n => b.finishWithSuffix (toWire sfx) = .ok ⟨toWire n, labelOffsets (toWire n)⟩ ∧ ValidName n
    | .error _ => ∃ e, b.finishWithSuffix (toWire sfx) = .err e := by
  obtain ⟨hinv, rfl⟩ := h
  obtain ⟨done, cur⟩ := rb
  rw [finishWithSuffix_stateOf done cur hinv sfx hs]
  unfold RefBuilder.finishWithSuffix
  simp only [List.isEmpty_iff]
  by_cases hc : cur = []
  · simp only [hc, ↓reduceIte]; exact ⟨_, rfl⟩
  · have hpos : 0 < cur.length := List.length_pos_iff.mpr hc
    by_cases hsz : wireLength (done ++ [cur] ++ sfx) > 255
    · simp only [hc, hsz, ↓reduceIte]; exact ⟨_, rfl⟩
    · simp only [hc, hsz, ↓reduceIte]
      have hok : LabelsOK (done ++ [cur] ++ sfx) := by
        refine LabelsOK_append.mpr ⟨LabelsOK_append.mpr ⟨hinv.ok, ?_⟩, hs.1⟩
        intro l hl; simp at hl; subst hl; exact ⟨hpos, hinv.cl⟩
      exact ⟨by rw [labelOffsets_toWire _ hok], hok, by omega⟩

/-- no builder operation panics in any reachable state -/
theorem C16_builder_no_panic (b : Builder) (rb : RefBuilder) (h : Abs b rb) (o : UInt8) (os : List UInt8) :
    (b.tryPush o).2 ≠ .panic ∧ (b.tryPushSlice os).2 ≠ .panic ∧ b.nextLabel.2 ≠ .panic ∧ b.finish ≠ .panic := by
  refine ⟨?_, ?_, ?_, ?_⟩
  · have := C16_builder_push b rb h o
    split at this
    · obtain ⟨_, e, _⟩ := this; rw [e]; simp
    · obtain ⟨_, e⟩ := this; rw [e]; simp
  · have := C16_builder_push_slice b rb h os
    split at this
    · obtain ⟨_, e, _⟩ := this; rw [e]; simp
    · obtain ⟨_, e⟩ := this; rw [e]; simp
  · have := C16_builder_next_label b rb h
    split at this
    · obtain ⟨_, e, _⟩ := this; rw [e]; simp
    · obtain ⟨_, e⟩ := this; rw [e]; simp
  · have := C16_builder_finish b rb h
    split at this
    · rw [this.1]; simp
    · obtain ⟨_, e⟩ := this; rw [e]; simp

/-! ### non-vacuity -/

/-- `\003www\007Example\000`: "www.Example." -/
def exName : DName := [[119, 119, 119], [69, 120, 97, 109, 112, 108, 101]]

theorem exName_valid : ValidName exName := by
  refine ⟨?_, by decide⟩
  intro l hl; simp [exName] at hl; rcases hl with rfl | rfl <;> decide

example : IsName (toWire exName) := ⟨exName, exName_valid, rfl⟩
example : toWire exName = [3, 119, 119, 119, 7, 69, 120, 97, 109, 112, 108, 101, 0] := by decide
example : displayName (toWire exName) = .ok (QV.Codes.bytesOf "www.Example.") := by
  rw [displayName_toWire exName exName_valid.1]; decide
/-- a label with a dot, a backslash, a space and a high octet: `a\.b\\\032\255.` -/
example : textOf [[97, 46, 98, 92, 32, 255]] = QV.Codes.bytesOf "a\\.b\\\\\\032\\255." := by decide
example : Denotes (QV.Codes.bytesOf "a\\.b.") [[97, 46, 98]] :=
  .last (.plain (by decide) (by decide) (by decide) (.quoted (by decide) (.plain (by decide) (by decide) (by decide) .nil)))
    (by decide)
example : canonicalCmp [[97]] [[90], [97]] = .lt := by decide
example : SameName exName [[87, 87, 119], [101, 88, 97, 109, 112, 108, 101]] := by decide
example : IsSubdomainOrEq exName [[101, 120, 97, 109, 112, 108, 101]] := by decide
example : Abs Builder.new ⟨[], []⟩ := C16_builder_new

end QV.C16
