/-
  C14 — Wire-format name decoding matches RFC 1035.

  "For any octet buffer and start offset, decoding a possibly compressed name terminates without
   panicking and yields exactly the name and first-chunk length an independent RFC 1035 §4.1.4
   decoder yields (pointers strictly backwards, labels of at most 63 octets, names of at most 255
   octets), or an error when that decoder fails. Skipping, validating and uncompressed parsing
   agree with it on acceptance and length."

  Model: `QV.Model.Wire` (mirrors src/name/wire.rs).  Spec: `QV.Spec.NameWire.Decodes`.
  Termination is discharged by Lean's termination checker for `parseAux` (lexicographic measure
  `(chunk_start, msg.size - index)`), `uncompAux` and `skipAux`.
-/
import QV.Proofs.Wire

namespace QV.C14
open QV QV.Wire QV.Spec

/-- **Main theorem.** The parser accepts exactly the names the RFC relation describes, and
    returns exactly that wire form, label count and first-chunk length. -/
theorem C14_parse_ok_iff (msg : Bytes) (s : Nat) (p : Parsed) :
    parseCompressed msg s = .ok p ↔ DecodesName msg s p.wire p.nlabels p.len := by
  unfold parseCompressed DecodesName
  constructor
  · intro h
    obtain ⟨w', n', k', hd, hw, hl, hn, hk⟩ := parseAux_sound msg s s [] 0 none p (Nat.le_refl _) h
    simp at hw hn hk
    subst hw hn hk
    exact ⟨hd, hl⟩
  · intro ⟨hd, hl⟩
    have := parseAux_complete msg hd [] 0 none (Nat.le_refl _) (by simpa using hl) (by simp)
    rw [this]; simp

/-- The parser never panics: no index is out of range and `label_offsets` never overflows. -/
theorem C14_no_panic (msg : Bytes) (s : Nat) : parseCompressed msg s ≠ .panic :=
  parseAux_no_panic msg s s [] 0 none (by simp) (by simp)

/-- It reports an error exactly when no name decodes at `s`. -/
theorem C14_err_iff (msg : Bytes) (s : Nat) :
    (∃ e, parseCompressed msg s = .err e) ↔ ¬ ∃ w n k, DecodesName msg s w n k := by
  constructor
  · intro ⟨e, he⟩ ⟨w, n, k, hd⟩
    have := (C14_parse_ok_iff msg s ⟨w, n, k⟩).mpr hd
    rw [he] at this; cases this
  · intro hno
    cases h : parseCompressed msg s with
    | ok p => exact absurd ⟨p.wire, p.nlabels, p.len, (C14_parse_ok_iff msg s p).mp h⟩ hno
    | err e => exact ⟨e, rfl⟩
    | panic => exact absurd h (C14_no_panic msg s)

/-- The RFC relation is functional: a buffer and offset decode to at most one name. -/
theorem C14_decodes_unique (msg : Bytes) (s : Nat) (w w' : List UInt8) (n n' k k' : Nat)
    (h : DecodesName msg s w n k) (h' : DecodesName msg s w' n' k') : w = w' ∧ n = n' ∧ k = k' := by
  have a := (C14_parse_ok_iff msg s ⟨w, n, k⟩).mpr h
  have b := (C14_parse_ok_iff msg s ⟨w', n', k'⟩).mpr h'
  rw [a] at b
  cases b; exact ⟨rfl, rfl, rfl⟩

/-- Uncompressed parsing never panics. -/
theorem C14_uncompressed_no_panic (b : Bytes) (u : Bool) : parseUncompressed b u ≠ .panic :=
  parseUncompressed_no_panic b u

/-- Validation agrees with uncompressed parsing on acceptance and length … -/
theorem C14_validate_ok_iff (b : Bytes) (u : Bool) (k : Nat) :
    validateUncompressed b u = .ok k ↔ ∃ p, parseUncompressed b u = .ok p ∧ p.len = k :=
  validate_iff_parse b u k

/-- … and on the error reported. -/
theorem C14_validate_err_iff (b : Bytes) (u : Bool) (e : NameErr) :
    validateUncompressed b u = .err e ↔ parseUncompressed b u = .err e :=
  validate_err_iff_parse b u e

/-- Uncompressed parsing agrees with the (compressed) decoder: same name, same length. -/
theorem C14_uncompressed_agrees (b : Bytes) (p : Parsed) (h : parseUncompressed b false = .ok p) :
    DecodesName b 0 p.wire p.nlabels p.len :=
  (C14_parse_ok_iff b 0 p).mp (parseUncompressed_compressed b p h)

/-- Skipping agrees with decoding on acceptance and length. -/
theorem C14_skip_agrees (msg : Bytes) (s : Nat) (p : Parsed) (h : parseCompressed msg s = .ok p) :
    skipCompressed (msg.extract s msg.size) = .ok p.len :=
  skip_of_parse msg s p h

/-! ### non-vacuity: a concrete compressed name satisfies the relation -/

/-- `\x03www\xc0\x00` at offset 9 of a message that starts with `\x07example\x00`. -/
def exMsg : Bytes := #[7, 101, 120, 97, 109, 112, 108, 101, 0, 3, 119, 119, 119, 0xc0, 0]

theorem exMsg_parses : parseCompressed exMsg 9 =
    .ok ⟨[3, 119, 119, 119, 7, 101, 120, 97, 109, 112, 108, 101, 0], 3, 6⟩ := by
  simp [parseCompressed, parseAux, exMsg, isPtr, ptrOf, Gen.MAX_LABEL_LEN, Gen.MAX_WIRE_LEN,
    Gen.MAX_N_LABELS]
  decide

example : ∃ w n k, DecodesName exMsg 9 w n k :=
  ⟨_, _, _, (C14_parse_ok_iff exMsg 9 _).mp exMsg_parses⟩

/-- and a pointer to its own chunk is rejected (regression witness for "strictly backwards") -/
example : parseCompressed #[0xc0, 0] 0 = .err .InvalidPointer := by
  simp [parseCompressed, parseAux, isPtr, ptrOf]

/-- regression witness for the repaired defect: `start = len` is an error, not a panic -/
example : parseCompressed #[1, 2, 3] 3 = .err .UnexpectedEom := by
  simp [parseCompressed, parseAux]

end QV.C14
