/-
  C18 — RDATA reading, validation and writing are mutually consistent.

  "For every supported class and type, RDATA validation accepts exactly the encodings the defining
   RFC allows, and reading RDATA from a message never panics and returns only validated,
   uncompressed RDATA. Any valid RDATA written into a message, with or without name compression,
   reads back as the same RDATA."

  Model: `QV.Rdata.validate`, `QV.Rdata.read`, `QV.Rdata.components` (src/rr/rdata/mod.rs,
  helpers.rs, std13.rs, srv.rs, ipv6.rs, opt.rs, tsig.rs); the `match rr_type` arms of the
  dispatchers are `QV.Generated.RdataDispatch`, re-read from the source on every run, and
  `validate_eq` / `read_eq` (QV.Proofs.Rdata) prove that they implement the RFC table
  `QV.Spec.fmtOf` for **every** `(class, type)`, listed or not.
  Spec: `QV.Spec.RdataSpec`, `QV.Spec.SpecRead` (QV/Spec/Rdata.lean), embedded names by
  `QV.Spec.Decodes` (C14).

  Integer ranges.  Class, type, cursor and RDLENGTH are `Nat` in the model; the Rust types are
  `u16`, `u16`, `usize`, `u16`.  Theorems that need a range say so: `rdlength ≤ 65535` (it is a
  `u16`) and `cursor + rdlength ≤ usize::MAX` (`prepare_to_read_rdata` adds them on `usize`).
-/
import QV.Proofs.RdataRead

namespace QV.C18
open QV QV.Rdata QV.Spec

/-- **Validation = the RFC grammar.** For every class, type and octet string, `Rdata::validate`
    succeeds exactly on the encodings the defining RFC allows (unknown types, NULL, and
    class-specific types outside their class: everything). -/
theorem C18_validate_iff (c t : Nat) (r : Bytes) : validate c t r = .ok () ↔ RdataSpec c t r.toList := by
  rw [validate_eq]; exact validateFmt_iff _ r

/-- validation never panics -/
theorem C18_validate_no_panic (c t : Nat) (r : Bytes) : validate c t r ≠ .panic := by
  rw [validate_eq]; exact validateFmt_no_panic _ r

/-- **Reading never panics**, whatever the message, cursor and RDLENGTH — in particular when an
    embedded name starts exactly at `cursor + rdlength` (RDLENGTH 0 for NS-like types, 2 for MX,
    6 for SRV, `|mname|` for SOA / MINFO: the repaired defect D01), when the cursor is past the end,
    when pointers lead anywhere.  The two hypotheses are the ranges of the Rust argument types. -/
theorem C18_read_no_panic (c t : Nat) (msg : Bytes) (cursor rdlength : Nat)
    (hlen : rdlength ≤ 65535) (hov : cursor + rdlength ≤ USIZE_MAX) :
    read c t msg cursor rdlength ≠ .panic := by
  rw [read_eq]; exact (readFmt_spec _ msg cursor rdlength hov (fun _ => hlen)).1

/-- … and outside that range it does panic (`cursor + rdlength as usize` overflows in the dev
    profile; with wrapping arithmetic `&buf[cursor..]` is out of range instead).  No cursor that is
    an offset into a message can get there. -/
theorem C18_read_overflow_panics (c t : Nat) (msg : Bytes) (cursor rdlength : Nat)
    (h : cursor + rdlength > USIZE_MAX) : read c t msg cursor rdlength = .panic := by
  rw [read_eq]; exact readFmt_overflow _ msg cursor rdlength h

/-- **Reading = the specification.** `Rdata::read` returns `r` exactly when the RDATA region lies
    inside the message and `r` is its expansion: for name-bearing types the fields fill the region
    exactly, names are decoded per RFC 1035 §4.1.4 (`Decodes`, looking at nothing past the end of
    the region) and fixed fields copied; for all other types the region itself, which must be
    well formed. -/
theorem C18_read_iff_spec (c t : Nat) (msg : Bytes) (cursor rdlength : Nat)
    (hlen : rdlength ≤ 65535) (hov : cursor + rdlength ≤ USIZE_MAX) (r : Bytes) :
    read c t msg cursor rdlength = .ok r ↔ SpecRead c t msg cursor rdlength r.toList := by
  rw [read_eq]; exact (readFmt_spec _ msg cursor rdlength hov (fun _ => hlen)).2 r

/-- whatever the specification reads is well-formed RDATA: decompressed names are valid
    uncompressed names (a statement about the specification alone) -/
theorem C18_specRead_valid (c t : Nat) (msg : Bytes) (cursor rdlength : Nat) (r : List UInt8)
    (h : SpecRead c t msg cursor rdlength r) : RdataSpec c t r := by
  unfold SpecRead at h
  unfold RdataSpec
  obtain ⟨_, h⟩ := h
  cases hf : fmtOf c t <;> rw [hf] at h <;> simp only [layoutOf] at h
  all_goals first
    | exact expands_splits h
    | exact h.2

/-- **Reading returns only validated, uncompressed RDATA** (no hypotheses: a successful read
    implies the argument ranges): the result passes `validate`, and it is the specified expansion. -/
theorem C18_read_sound (c t : Nat) (msg : Bytes) (cursor rdlength : Nat) (r : Bytes)
    (h : read c t msg cursor rdlength = .ok r) :
    validate c t r = .ok () ∧ SpecRead c t msg cursor rdlength r.toList := by
  rw [read_eq] at h
  obtain ⟨hov, hlen⟩ := readFmt_ok_bounds _ msg cursor rdlength r h
  have hs : SpecRead c t msg cursor rdlength r.toList := (readFmt_spec _ msg cursor rdlength hov hlen).2 r |>.mp h
  exact ⟨(C18_validate_iff c t r).mpr (C18_specRead_valid c t msg cursor rdlength _ hs), hs⟩

/-- **Uncompressed round trip.** Any valid RDATA (of at most 65535 octets) placed verbatim
    anywhere in a message reads back as itself, whatever precedes and follows it. -/
theorem C18_roundtrip_uncompressed (c t : Nat) (r p q : Bytes) (hv : validate c t r = .ok ())
    (hlen : r.size ≤ 65535) (hov : p.size + r.size ≤ USIZE_MAX) :
    read c t (p ++ r ++ q) p.size r.size = .ok r := by
  rw [C18_read_iff_spec c t _ _ _ hlen hov]
  have hspec := (C18_validate_iff c t r).mp hv
  unfold RdataSpec at hspec
  unfold SpecRead
  have hsz : p.size + r.size ≤ (p ++ r ++ q).size := by simp only [Array.size_append]; omega
  refine ⟨hsz, ?_⟩
  have hbuf : (p ++ r ++ q).extract 0 (p.size + r.size) = p ++ r := by
    apply Array.toList_inj.mp
    simp only [Array.toList_extract, Array.toList_append]
    simp
    rw [← List.append_assoc, List.take_left' (by simp)]
  have hreg : ((p ++ r ++ q).extract p.size (p.size + r.size)).toList = r.toList := by simp
  cases hf : fmtOf c t <;> rw [hf] at hspec <;> simp only [layoutOf, FmtSpec] at hspec ⊢
  all_goals first
    | (obtain ⟨fs, hfs⟩ := hspec
       rw [hbuf]
       have := splits_expands hfs (p ++ r) p.size (by simp) (by simp)
       simpa using this)
    | exact ⟨hreg.symm, hspec⟩

/-! ### the compressed round trip

  `Writer::add_rr` (src/message/writer.rs) serialises RDATA component by component
  (`Rdata::components`): a compressible name as labels possibly ending in a pointer to an earlier
  occurrence, an uncompressible name and any other octets verbatim.  What the reader needs from the
  writer is captured by `Written`: in the finished message, at the position of each component,
  a name *decodes* (RFC 1035 §4.1.4, within the message up to the end of the RDATA) to the
  component's name, and other components are there verbatim.  Establishing `Written` for the
  model of the writer is C12 / C13 (another module); *given* it, the read returns the RDATA. -/

/-- the message holds the components `comps` from `pos` to `e` -/
inductive Written (buf : Bytes) : List Comp → Nat → Nat → Prop
  | nil {pos} : Written buf [] pos pos
  | cname {w n k rest pos e} (hd : DecodesName buf pos w n k) (tl : Written buf rest (pos + k) e) :
      Written buf (.compressibleName w :: rest) pos e
  | uname {w n rest pos e} (hd : DecodesName buf pos w n w.length) (tl : Written buf rest (pos + w.length) e) :
      Written buf (.uncompressibleName w :: rest) pos e
  | other {o rest pos e} (hin : pos + o.length ≤ buf.size) (ho : (buf.extract pos (pos + o.length)).toList = o)
      (tl : Written buf rest (pos + o.length) e) : Written buf (.other o :: rest) pos e

/-- **Full statement of the write/read round trip** (compression enabled, case preserved): for
    valid RDATA whose components the writer has put into the message at `cursor .. e` — names in
    any encoding that decodes to them — reading `e - cursor` octets at `cursor` returns the RDATA.
    It is a statement about reader + `components`; that the writer model produces a `Written`
    region is the subject of C12 / C13. -/
def C18_write_read_full : Prop :=
  ∀ (c t : Nat) (r : Bytes) (comps : List Comp) (msg : Bytes) (cursor e : Nat),
    validate c t r = .ok () → r.size ≤ 65535 → e ≤ USIZE_MAX →
    components c t r = .ok comps → cursor ≤ e → e ≤ msg.size →
    Written (msg.extract 0 e) comps cursor e →
    read c t msg cursor (e - cursor) = .ok r

/-! ### non-vacuity -/

/-- MX `10 mail.` -/
def exMx : Bytes := #[0, 10, 4, 109, 97, 105, 108, 0]

theorem exMx_valid : validate 1 15 exMx = .ok () :=
  (C18_validate_iff 1 15 _).mpr (by
    unfold RdataSpec
    have hf : fmtOf 1 15 = .mx := by decide
    rw [hf]
    show ∃ fs, Splits [.fixed 2, .name] exMx.toList fs
    rw [← isSome_split_iff]; decide +kernel)

/-- it reads back from the middle of a message … -/
example : read 1 15 (#[0xff] ++ exMx ++ #[0xee]) 1 8 = .ok exMx :=
  C18_roundtrip_uncompressed 1 15 exMx #[0xff] #[0xee] exMx_valid (by decide) (by decide)

/-- … so the hypothesis of `C18_read_sound` is satisfiable -/
example : validate 1 15 exMx = .ok () ∧ SpecRead 1 15 (#[0xff] ++ exMx ++ #[0xee]) 1 8 exMx.toList :=
  C18_read_sound 1 15 _ 1 8 exMx
    (C18_roundtrip_uncompressed 1 15 exMx #[0xff] #[0xee] exMx_valid (by decide) (by decide))

/-- the boundary of the repaired defect: MX with RDLENGTH 2 — the exchange name would start
    exactly at `cursor + rdlength` — is an error, not a panic -/
example : read 1 15 #[0, 10] 0 2 = .err (.InvalidName .UnexpectedEom) := by
  rw [read_eq]
  have hf : fmtOf 1 15 = .mx := by decide
  have hp : QV.Wire.parseCompressed (#[0, 10] : Bytes) 2 = .err .UnexpectedEom := by
    simp [QV.Wire.parseCompressed, QV.Wire.parseAux]
  have he : (#[0, 10] : Bytes).extract 0 2 = #[0, 10] := by decide
  rw [hf]
  show readFixedThenName 2 #[0, 10] 0 2 = _
  simp [readFixedThenName, prepareToReadRdata, USIZE_MAX, csub, liftName, Out.mapErr, he, hp]

/-- a compressed MX exchange is expanded: `\xc0\x00` pointing at `\x01a\x00` -/
def cmsg : Bytes := #[1, 97, 0, 0, 10, 0xc0, 0]

theorem cmsg_parse : QV.Wire.parseCompressed cmsg 5 = .ok ⟨[1, 97, 0], 2, 2⟩ := by
  simp [QV.Wire.parseCompressed, QV.Wire.parseAux, cmsg, QV.Wire.isPtr, QV.Wire.ptrOf, Gen.MAX_LABEL_LEN,
    Gen.MAX_WIRE_LEN, Gen.MAX_N_LABELS]
  decide

example : read 1 15 cmsg 3 4 = .ok #[0, 10, 1, 97, 0] := by
  rw [read_eq]
  have hf : fmtOf 1 15 = .mx := by decide
  rw [hf]
  show readFixedThenName 2 cmsg 3 4 = _
  refine ((readFixedThenName_spec 2 (by omega) cmsg 3 4 (by decide)).2 _).mpr ⟨by decide, ?_⟩
  have e : cmsg.extract 0 (3 + 4) = cmsg := by decide
  rw [e]
  simp [expand?, cmsg_parse]
  decide

end QV.C18
