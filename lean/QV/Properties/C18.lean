/-
  C18 — RDATA reading, validation and writing are mutually consistent.

  "For every supported class and type, RDATA validation accepts exactly the encodings the defining
   RFC allows, and reading RDATA from a message never panics and returns only validated,
   uncompressed RDATA. Any valid RDATA written into a message, with or without name compression,
   reads back as the same RDATA."

  Model: `QV.Rdata.validate`, `QV.Rdata.read`, `QV.Rdata.components` (src/rr/rdata/mod.rs,
  helpers.rs, std13.rs, srv.rs, ipv6.rs, opt.rs, tsig.rs); the `match rr_type` arms of the
  dispatchers are `QV.Generated.RdataDispatch`, re-read from the source on every run, and
  `validate_eq` / `read_eq` (QV.Proofs.Rdata) prove that they implement the RFC table
  `QV.Spec.fmtOf` for **every** `(class, type)`, listed or not.
  Spec: `QV.Spec.RdataSpec`, `QV.Spec.SpecRead` (QV/Spec/Rdata.lean), embedded names by
  `QV.Spec.Decodes` (C14).

  Integer ranges.  Class, type, cursor and RDLENGTH are `Nat` in the model; the Rust types are
  `u16`, `u16`, `usize`, `u16`.  Theorems that need a range say so: `rdlength ≤ 65535` (it is a
  `u16`) and `cursor + rdlength ≤ usize::MAX` (`prepare_to_read_rdata` adds them on `usize`).
-/
import QV.Proofs.RdataRead

namespace QV.C18
open QV QV.Rdata QV.Spec

/-- **Validation = the RFC grammar.** For every class, type and octet string, `Rdata::validate`
    succeeds exactly on the encodings the defining RFC allows (unknown types, NULL, and
    class-specific types outside their class: everything). -/
theorem C18_validate_iff (c t : Nat) (r : Bytes) : validate c t r = .ok () ↔ RdataSpec c t r.toList := by
  rw [validate_eq]; exact validateFmt_iff _ r

/-- validation never panics -/
theorem C18_validate_no_panic (c t : Nat) (r : Bytes) : validate c t r ≠ .panic := by
  rw [validate_eq]; exact validateFmt_no_panic _ r

/-- **Reading never panics**, whatever the message, cursor and RDLENGTH — in particular when an
    embedded name starts exactly at `cursor + rdlength` (RDLENGTH 0 for NS-like types, 2 for MX,
    6 for SRV, `|mname|` for SOA / MINFO: the repaired defect D01), when the cursor is past the end,
    when pointers lead anywhere.  The two hypotheses are the ranges of the Rust argument types. -/
theorem C18_read_no_panic (c t : Nat) (msg : Bytes) (cursor rdlength : Nat)
    (hlen : rdlength ≤ 65535) (hov : cursor + rdlength ≤ USIZE_MAX) :
    read c t msg cursor rdlength ≠ .panic := by
  rw [read_eq]; exact (readFmt_spec _ msg cursor rdlength hov (fun _ => hlen)).1

/-- … and outside that range it does panic (`cursor + rdlength as usize` overflows in the dev
    profile; with wrapping arithmetic `&buf[cursor..]` is out of range instead).  No cursor that is
    an offset into a message can get there. -/
theorem C18_read_overflow_panics (c t : Nat) (msg : Bytes) (cursor rdlength : Nat)
    (h : cursor + rdlength > USIZE_MAX) : read c t msg cursor rdlength = .panic := by
  rw [read_eq]; exact readFmt_overflow _ msg cursor rdlength h

/-- **Reading = the specification.** `Rdata::read` returns `r` exactly when the RDATA region lies
    inside the message and `r` is its expansion: for name-bearing types the fields fill the region
    exactly, names are decoded per RFC 1035 §4.1.4 (`Decodes`, looking at nothing past the end of
    the region) and fixed fields copied; for all other types the region itself, which must be
    well formed. -/
theorem C18_read_iff_spec (c t : Nat) (msg : Bytes) (cursor rdlength : Nat)
    (hlen : rdlength ≤ 65535) (hov : cursor + rdlength ≤ USIZE_MAX) (r : Bytes) :
    read c t msg cursor rdlength = .ok r ↔ SpecRead c t msg cursor rdlength r.toList := by
  rw [read_eq]; exact (readFmt_spec _ msg cursor rdlength hov (fun _ => hlen)).2 r

/-- whatever the specification reads is well-formed RDATA: decompressed names are valid
    uncompressed names (a statement about the specification alone) -/
theorem C18_specRead_valid (c t : Nat) (msg : Bytes) (cursor rdlength : Nat) (r : List UInt8)
    (h : SpecRead c t msg cursor rdlength r) : RdataSpec c t r := by
  unfold SpecRead at h
  unfold RdataSpec
  obtain ⟨_, h⟩ := h
  cases hf : fmtOf c t <;> rw [hf] at h <;> simp only [layoutOf] at h
  all_goals first
    | exact expands_splits h
    | exact h.2

/-- **Reading returns only validated, uncompressed RDATA** (no hypotheses: a successful read
    implies the argument ranges): the result passes `validate`, and it is the specified expansion. -/
theorem C18_read_sound (c t : Nat) (msg : Bytes) (cursor rdlength : Nat) (r : Bytes)
    (h : read c t msg cursor rdlength = .ok r) :
    validate c t r = .ok () ∧ SpecRead c t msg cursor rdlength r.toList := by
  rw [read_eq] at h
  obtain ⟨hov, hlen⟩ := readFmt_ok_bounds _ msg cursor rdlength r h
  have hs : SpecRead c t msg cursor rdlength r.toList := (readFmt_spec _ msg cursor rdlength hov hlen).2 r |>.mp h
  exact ⟨(C18_validate_iff c t r).mpr (C18_specRead_valid c t msg cursor rdlength _ hs), hs⟩

/-- **Uncompressed round trip.** Any valid RDATA (of at most 65535 octets) placed verbatim
    anywhere in a message reads back as itself, whatever precedes and follows it. -/
theorem C18_roundtrip_uncompressed (c t : Nat) (r p q : Bytes) (hv : validate c t r = .ok ())
    (hlen : r.size ≤ 65535) (hov : p.size + r.size ≤ USIZE_MAX) :
    read c t (p ++ r ++ q) p.size r.size = .ok r := by
  rw [C18_read_iff_spec c t _ _ _ hlen hov]
  have hspec := (C18_validate_iff c t r).mp hv
  unfold RdataSpec at hspec
  unfold SpecRead
  have hsz : p.size + r.size ≤ (p ++ r ++ q).size := by simp only [Array.size_append]; omega
  refine ⟨hsz, ?_⟩
  have hbuf : (p ++ r ++ q).extract 0 (p.size + r.size) = p ++ r := by
    apply Array.toList_inj.mp
    simp only [Array.toList_extract, Array.toList_append]
    simp
    rw [← List.append_assoc, List.take_left' (by simp)]
  have hreg : ((p ++ r ++ q).extract p.size (p.size + r.size)).toList = r.toList := by simp
  cases hf : fmtOf c t <;> rw [hf] at hspec <;> simp only [layoutOf, FmtSpec] at hspec ⊢
  all_goals first
    | (obtain ⟨fs, hfs⟩ := hspec
       rw [hbuf]
       have := splits_expands hfs (p ++ r) p.size (by simp) (by simp)
       simpa using this)
    | exact ⟨hreg.symm, hspec⟩

/-! ### components, and the compressed round trip

  `Writer::add_rr` (src/message/writer.rs) serialises RDATA component by component
  (`Rdata::components`): a compressible name as labels possibly ending in a pointer to an earlier
  occurrence, an uncompressible name and any other octets verbatim.  What the reader needs from the
  writer is captured by `QV.Rdata.Written` (QV/Proofs/RdataRead.lean): in the finished message, at
  the position of each component, a name *decodes* (RFC 1035 §4.1.4, within the message up to the
  end of the RDATA) to the component's name, and other components are there verbatim.
  Establishing `Written` for the model of the writer is C12 / C13 (another module); *given* it,
  the read returns the RDATA — proved here. -/

/-- **Components of valid RDATA** (what the writer is handed): for a name-bearing format the
    fields of the RDATA in order — names of the RFC 1035 types compressible, the name of the
    class-specific CH A and of SRV uncompressible (RFC 3597 §4), fixed fields opaque; for every
    other format the whole RDATA as one opaque component (none if empty).  Never a panic. -/
theorem C18_components_valid (c t : Nat) (r : Bytes) (hv : validate c t r = .ok ()) :
    (∀ l, layoutOf (fmtOf c t) = some l →
        ∃ fs, Splits l r.toList fs ∧ components c t r = .ok (tagComps (fmtOf c t) fs)) ∧
    (layoutOf (fmtOf c t) = none →
        components c t r = .ok (if r.size = 0 then [] else [.other r.toList])) := by
  have hspec := (C18_validate_iff c t r).mp hv
  unfold RdataSpec at hspec
  rw [components_eq]
  constructor
  · intro l hl
    have : ∃ fs, Splits l r.toList fs := by
      cases hf : fmtOf c t <;> rw [hf] at hspec hl <;> simp only [layoutOf, Option.some.injEq, reduceCtorEq] at hl <;>
        subst hl <;> exact hspec
    obtain ⟨fs, hfs⟩ := this
    exact ⟨fs, hfs, componentsFmt_valid _ l hl r fs hfs⟩
  · intro hl
    have : compTypesFmt (fmtOf c t) = [] := by
      cases hf : fmtOf c t <;> rw [hf] at hl <;> simp [layoutOf] at hl <;> rfl
    rw [this]; exact componentsAux_nil r

/-- **Full statement of the write/read round trip** (any compression mode that preserves case):
    for valid RDATA whose components the writer has put into the message at `cursor .. e` — names
    in any encoding that decodes to them, within the 16-bit RDLENGTH — reading `e - cursor` octets
    at `cursor` returns exactly the RDATA. -/
def C18_write_read_full : Prop :=
  ∀ (c t : Nat) (r : Bytes) (comps : List Comp) (msg : Bytes) (cursor e : Nat),
    validate c t r = .ok () → components c t r = .ok comps →
    cursor ≤ e → e ≤ msg.size → e ≤ USIZE_MAX → e - cursor ≤ 65535 →
    Written (msg.extract 0 e) comps cursor e →
    read c t msg cursor (e - cursor) = .ok r

/-- … proved for the reader and `components`; what remains for the end-to-end claim is that the
    writer model establishes `Written` (C12 / C13). -/
theorem C18_write_read : C18_write_read_full := by
  intro c t r comps msg cursor e hv hcomp hce hem heu hrd hW
  have hce' : cursor + (e - cursor) = e := by omega
  rw [C18_read_iff_spec c t msg cursor (e - cursor) hrd (by omega)]
  unfold SpecRead
  rw [hce']
  refine ⟨hem, ?_⟩
  obtain ⟨h1, h2⟩ := C18_components_valid c t r hv
  cases hl : layoutOf (fmtOf c t) with
  | some l =>
    obtain ⟨fs, hfs, hc⟩ := h1 l hl
    rw [hc] at hcomp
    cases hcomp
    have := written_expands (tagged_tagComps _ l hl _ fs hfs) hW
    rw [splits_flatten hfs] at this
    exact this
  | none =>
    have hc := h2 hl
    rw [hc] at hcomp
    cases hcomp
    have hspec := (C18_validate_iff c t r).mp hv
    refine ⟨?_, hspec⟩
    by_cases h0 : r.size = 0
    · simp only [h0, if_true] at hW
      cases hW
      have : r.toList = [] := by apply List.eq_nil_of_length_eq_zero; simpa using h0
      rw [this]; simp
    · simp only [h0, if_false] at hW
      cases hW with
      | other hin ho tl =>
        cases tl
        rw [extract_extract_prefix msg _ _ _ (by omega) hem] at ho
        exact ho.symm

/-! ### non-vacuity -/

/-- MX `10 mail.` -/
def exMx : Bytes := #[0, 10, 4, 109, 97, 105, 108, 0]

theorem exMx_valid : validate 1 15 exMx = .ok () :=
  (C18_validate_iff 1 15 _).mpr (by
    unfold RdataSpec
    have hf : fmtOf 1 15 = .mx := by decide
    rw [hf]
    show ∃ fs, Splits [.fixed 2, .name] exMx.toList fs
    rw [← isSome_split_iff]; decide +kernel)

/-- it reads back from the middle of a message … -/
example : read 1 15 (#[0xff] ++ exMx ++ #[0xee]) 1 8 = .ok exMx :=
  C18_roundtrip_uncompressed 1 15 exMx #[0xff] #[0xee] exMx_valid (by decide) (by decide)

/-- … so the hypothesis of `C18_read_sound` is satisfiable -/
example : validate 1 15 exMx = .ok () ∧ SpecRead 1 15 (#[0xff] ++ exMx ++ #[0xee]) 1 8 exMx.toList :=
  C18_read_sound 1 15 _ 1 8 exMx
    (C18_roundtrip_uncompressed 1 15 exMx #[0xff] #[0xee] exMx_valid (by decide) (by decide))

/-- the boundary of the repaired defect: MX with RDLENGTH 2 — the exchange name would start
    exactly at `cursor + rdlength` — is an error, not a panic -/
example : read 1 15 #[0, 10] 0 2 = .err (.InvalidName .UnexpectedEom) := by
  rw [read_eq]
  have hf : fmtOf 1 15 = .mx := by decide
  have hp : QV.Wire.parseCompressed (#[0, 10] : Bytes) 2 = .err .UnexpectedEom := by
    simp [QV.Wire.parseCompressed, QV.Wire.parseAux]
  have he : (#[0, 10] : Bytes).extract 0 2 = #[0, 10] := by decide
  rw [hf]
  show readFixedThenName 2 #[0, 10] 0 2 = _
  simp [readFixedThenName, prepareToReadRdata, USIZE_MAX, csub, liftName, Out.mapErr, he, hp]

/-- a compressed MX exchange is expanded: `\xc0\x00` pointing at `\x01a\x00` -/
def cmsg : Bytes := #[1, 97, 0, 0, 10, 0xc0, 0]

theorem cmsg_parse : QV.Wire.parseCompressed cmsg 5 = .ok ⟨[1, 97, 0], 2, 2⟩ := by
  simp [QV.Wire.parseCompressed, QV.Wire.parseAux, cmsg, QV.Wire.isPtr, QV.Wire.ptrOf, Gen.MAX_LABEL_LEN,
    Gen.MAX_WIRE_LEN, Gen.MAX_N_LABELS]
  decide

example : read 1 15 cmsg 3 4 = .ok #[0, 10, 1, 97, 0] := by
  rw [read_eq]
  have hf : fmtOf 1 15 = .mx := by decide
  rw [hf]
  show readFixedThenName 2 cmsg 3 4 = _
  refine ((readFixedThenName_spec 2 (by omega) cmsg 3 4 (by decide)).2 _).mpr ⟨by decide, ?_⟩
  have e : cmsg.extract 0 (3 + 4) = cmsg := by decide
  rw [e]
  simp [expand?, cmsg_parse]
  decide

/-- the hypotheses of `C18_write_read` are satisfiable by a genuinely compressed region: the
    components of MX `10 a.` written as `00 0a c0 00` after an earlier `a.` -/
example : read 1 15 cmsg 3 (7 - 3) = .ok #[0, 10, 1, 97, 0] := by
  have hv : validate 1 15 #[0, 10, 1, 97, 0] = .ok () :=
    (C18_validate_iff 1 15 _).mpr (by
      unfold RdataSpec
      have hf : fmtOf 1 15 = .mx := by decide
      rw [hf]
      show ∃ fs, Splits [.fixed 2, .name] (#[0, 10, 1, 97, 0] : Bytes).toList fs
      rw [← isSome_split_iff]; decide +kernel)
  have hf : fmtOf 1 15 = .mx := by decide
  obtain ⟨fs, hfs, hc⟩ := (C18_components_valid 1 15 _ hv).1 [.fixed 2, .name] (by rw [hf]; rfl)
  have hfs' : fs = [[0, 10], [1, 97, 0]] := by
    have := (split?_iff _ _ _).mpr hfs
    have e : split? [.fixed 2, .name] (#[0, 10, 1, 97, 0] : Bytes).toList = some [[0, 10], [1, 97, 0]] := by
      decide +kernel
    rw [e] at this; cases this; rfl
  subst hfs'
  rw [hf] at hc
  have e7 : cmsg.extract 0 7 = cmsg := by decide
  refine C18_write_read 1 15 _ _ cmsg 3 7 hv hc (by omega) (by decide) (by decide) (by omega) ?_
  rw [e7]
  exact Written.other (by decide) (by decide)
    (Written.cname ((QV.C14.C14_parse_ok_iff cmsg 5 _).mp cmsg_parse) Written.nil)

end QV.C18
