/-
  C09 — EDNS(0) requests get correct OPT handling.

  "A response contains exactly one OPT record (owner root, class equal to the server's payload size,
   EDNS version 0) if and only if the request's additional section contained an OPT record that
   processing reached. A request whose OPT carries an EDNS version other than 0 is answered with
   extended RCODE BADVERS and no answer data, and an OPT whose owner is not the root gives FORMERR."

  Model: `QV.Server.handleMessage` (src/server/mod.rs: OPT arm of the additional-section scan,
  `validate_opt`; src/message/writer.rs `set_edns`, `finish`).  Spec: `specScanWith` (its `edns`
  flag = "the scan reached an OPT in the additional section") and `specErrorResponse`.
  Interpretation: an OPT that was reached but does not parse still makes the response an EDNS
  response (RFC 6891 §7); the version is read from the *raw* TTL field (defect D06, repaired).

  Proved, for every configuration (any server payload size ≥ 512), transport, buffer and request
  whose verdict the scan decides alone (FORMERR, BADVERS, NOTIMP, REFUSED, SERVFAIL-not-loaded):
  * `C09_opt_iff_partial` — ARCOUNT is 1 and the message ends with exactly one OPT record — owner
    root, TYPE 41, CLASS = the server's payload size, TTL = (extended RCODE bits, version 0, flags 0),
    RDLENGTH 0 — iff the scan reached an OPT; otherwise ARCOUNT is 0 and nothing follows the question;
  * `C09_badvers` — a reached OPT with version ≠ 0 (root owner, well-formed options) gives extended
    RCODE 16 = BADVERS: header RCODE bits 0, OPT TTL top octet 1, no answer/authority data;
  * `C09_owner_not_root`, `C09_version`, `C09_limit` — the spec-level decision at an OPT record.
  For responses that a loaded zone produces (verdict `answer`; any zone contents, any answer):
  * `C09_answer_opt` — with `w1` the writer that the answering phase leaves (`answerState`), the
    response is `w1`'s content up to its cursor and then — iff the scan reached an OPT — exactly the
    eleven octets of one OPT record (owner root, TYPE 41, CLASS = server payload size, version 0,
    flags 0, RDLENGTH 0) as the last record of the message; no TSIG record is appended.  (Frame
    lemma with `k = true`: the whole answering phase preserves the TSIG slot and the EDNS payload;
    `finish` is read backwards in `Proofs/FinishInv`.)
  For TSIG-signed requests (verdict `tsigReached`; `Proofs/FinishTsig`, `Proofs/ServerSigned`):
  * `C09_signed_nodata_opt` — an authenticated request with a no-data verdict: after the question the
    response holds exactly the OPT record (iff the scan reached an OPT; owner root, TYPE 41, CLASS =
    server payload size, TTL 0 = extended RCODE 0 / version 0 / flags 0, RDLENGTH 0) and then the TSIG
    record, last; ARCOUNT = (OPT ? 2 : 1);
  * `C09_signed_error_opt` — the same for requests the TSIG step rejects (NOTAUTH / FORMERR replies);
  * `C09_signed_answer_opt` — an authenticated request that a loaded zone answers: the octets before
    the TSIG record end with exactly that OPT record iff the scan reached an OPT.
  On the independent decoding of the response — `C09_full`'s own terms (`Proofs/ServerSignedDecode`:
  the final writer of every no-data response is reached from `Writer::new` by public calls, hence
  satisfies the writer's invariant and content layout, and C12's `finish_decodes_content` applies):
  * `C09_decoded_unsigned` — all three clauses of `C09_full` (count of type-41 records, owner / class /
    version of the OPT, BADVERS: extended-RCODE octet 1 and no data) for every request whose verdict
    the scan decides alone;
  * `C09_decoded_signed_nodata`, `C09_decoded_signed_error` — the OPT clauses and "no answer / authority
    data" for authenticated signed requests with a no-data verdict and for rejected signed requests;
  * `C09_decoded_of_good` — the bridge for any response: it suffices that the writer handed to `finish`
    is `Good` (writer invariant + content layout) with only address records of its own in the
    additional section, and has its EDNS slot set iff the scan reached an OPT.
  * `C09_decoded_answer`, `C09_decoded_signed_answer` — the OPT clauses for every response of the
    *answering phase* (verdict `answer`, unsigned or authenticated): the final writer is `Good` with
    the question and the records of the successful logged calls as its body
    (`ServerContent.answer_final_good`, `signed_answer_final`, on top of
    `ServerContent.clay_handleNonAxfrQueryL`: the induction over `handle_non_axfr_query` that ties the
    ghost log to the writer's content layout, with the writer invariant and the hint contract at
    every call, run along `Proofs/ServerQuery`), its own additional records are address records
    (C05's `LogsT.inner`), and the answering phase keeps the EDNS payload size.
  * `C09_decoded_signed_nofit` — the reply to a signed request whose reply TSIG does not fit (RFC 8945
    §5.3, the repair of D03; `ServerContent.signed_nofit_final`): every decoding has TC set, RCODE 0,
    no answer / authority data, and an additional section that is exactly the OPT record iff the scan
    reached one (no TSIG record).
  * **`C09 : C09_full`** — the property at full strength, by cases over the scan's verdict
    (`C09_decoded_unsigned`, `C09_decoded_answer`, and for every request whose scan reaches a TSIG
    record `ServerContent.signed_final_good`: whatever the TSIG step decides — unknown key, bad MAC,
    bad time, authenticated; reply TSIG fitting or not; no-data verdict or answered by a loaded zone —
    the writer handed to `finish` is `Good`, its own additional records are address records, and its
    EDNS slot is set iff the scan reached an OPT).
  Recorded correction of the statement: `C09_full` as first written quantified over every `Cfg`
  value; it now carries the two hypotheses the decoded theorems need, which are what the library API
  guarantees of a configuration — `CfgWF cfg` (each catalog entry filed under the apex of its zone,
  apexes are names, stored RRsets non-empty) and `cfg.payload ≤ 65535` (the payload size is a `u16`
  in the API; a larger `Nat` in the model would not fit the OPT record's CLASS field).  No
  `NoTruncation` hypothesis is needed: truncated and SERVFAIL answers are covered (the epilogues of
  `handle_non_axfr_query` keep the tie between log and layout).
  The differential check (audit tags `C09:*`) covers all of it as well.
-/
import QV.Proofs.ServerProps
import QV.Proofs.ServerEcho
import QV.Proofs.ServerSigned
import QV.Proofs.ServerSignedDecode
import QV.Proofs.ServerAnswerDecode
import QV.Proofs.ServerSignedNoFit

namespace QV.C09
open QV QV.Spec.Server QV.ServerScan

/-- the OPT record the property prescribes, with `upper` the top eight bits of the extended RCODE -/
def optRecordOctets (serverSize upper : Nat) : List UInt8 :=
  [0] ++ u16be 41 ++ u16be serverSize ++ [UInt8.ofNat upper, 0, 0, 0] ++ u16be 0

/-- C09 at full strength -/
def C09_full : Prop :=
  ∀ (cfg : Server.Cfg) (tr : Server.Transport) (now bufLen : Nat) (req : Bytes),
    minBuf tr cfg.payload ≤ bufLen → 512 ≤ cfg.payload → req.size ≤ Rdata.USIZE_MAX →
    -- what the library API guarantees of a configuration (recorded correction, see the header)
    ServerSafety.CfgWF cfg → cfg.payload ≤ 65535 →
    ∀ b, Server.handleMessage cfg tr now bufLen req = .ok (some b) →
      -- `d` = the independent decoding of the response
      ∀ d, Spec.specDecodeMsg b = some d →
        ((d.ar.filter (fun r => r.ty = 41)).length = (if (specScanWith (catKind cfg) cfg.payload req).edns then 1 else 0)) ∧
        (∀ o ∈ d.ar, o.ty = 41 → o.owner = [0] ∧ o.cls = cfg.payload ∧ o.rawTtl / 65536 % 256 = 0) ∧
        ((specScanWith (catKind cfg) cfg.payload req).verdict = .badVers →
          d.rcode = 0 ∧ (∀ o ∈ d.ar, o.ty = 41 → o.rawTtl / 16777216 = 1) ∧ d.an = [] ∧ d.ns = [])

/-- **Theorem.** For every request whose verdict the scan decides alone: the response carries one
    OPT record — the last eleven octets, after the question: owner root, TYPE OPT, CLASS = server
    payload size, extended-RCODE bits as the verdict says, version 0, no flags, no options — and
    ARCOUNT 1, if and only if the scan reached an OPT in the request's additional section;
    otherwise ARCOUNT is 0 and the message ends with the question. -/
theorem C09_opt_iff_partial (cfg : Server.Cfg) (tr : Server.Transport) (now bufLen : Nat) (req : Bytes)
    (hbuf : minBuf tr cfg.payload ≤ bufLen) (hpay : 512 ≤ cfg.payload) (hreq : req.size ≤ Rdata.USIZE_MAX)
    (hr : (specScanWith (catKind cfg) cfg.payload req).respond = true)
    (hv : noDataV (specScanWith (catKind cfg) cfg.payload req).verdict = true) :
    ∃ b, Server.handleMessage cfg tr now bufLen req = .ok (some b) ∧
      hdr b 6 = 0 ∧ hdr b 8 = 0 ∧
      (if (specScanWith (catKind cfg) cfg.payload req).edns then
        hdr b 10 = 1 ∧
        b.toList.drop 12 = specQuestionOctets (specScanWith (catKind cfg) cfg.payload req).question ++
          optRecordOctets cfg.payload (verdictRcode (specScanWith (catKind cfg) cfg.payload req).verdict).2
      else
        hdr b 10 = 0 ∧
        b.toList.drop 12 = specQuestionOctets (specScanWith (catKind cfg) cfg.payload req).question) := by
  obtain ⟨b, hb, hl⟩ := server_error_response cfg tr now bufLen req hbuf hpay hreq hr hv
  obtain ⟨_, _, _, _, _, han, hns, har, hrest⟩ := errResp_facts _ _ _ _ hl
  refine ⟨b, hb, han, hns, ?_⟩
  cases he : (specScanWith (catKind cfg) cfg.payload req).edns with
  | false =>
    rw [he] at har
    simp only [Bool.false_eq_true, if_false] at har ⊢
    refine ⟨har, ?_⟩
    rw [hrest]; simp [specOptOctets, he]
  | true =>
    rw [he] at har
    simp only [if_true] at har ⊢
    refine ⟨har, ?_⟩
    rw [hrest]; simp [specOptOctets, he, optRecordOctets, u16be]

/-- **Theorem (BADVERS).** When the scan stops at an OPT with a version other than 0, the response
    has header RCODE bits 0 and an OPT whose TTL's top octet is 1 — extended RCODE 16 — and no
    answer or authority records. -/
theorem C09_badvers (cfg : Server.Cfg) (tr : Server.Transport) (now bufLen : Nat) (req : Bytes)
    (hbuf : minBuf tr cfg.payload ≤ bufLen) (hpay : 512 ≤ cfg.payload) (hreq : req.size ≤ Rdata.USIZE_MAX)
    (hr : (specScanWith (catKind cfg) cfg.payload req).respond = true)
    (hv : (specScanWith (catKind cfg) cfg.payload req).verdict = .badVers) :
    ∃ b, Server.handleMessage cfg tr now bufLen req = .ok (some b) ∧
      hdr b 2 % 16 = 0 ∧ hdr b 6 = 0 ∧ hdr b 8 = 0 ∧ hdr b 10 = 1 ∧
      b.toList.drop 12 = specQuestionOctets (specScanWith (catKind cfg) cfg.payload req).question ++
        optRecordOctets cfg.payload 1 := by
  have hnd : noDataV (specScanWith (catKind cfg) cfg.payload req).verdict = true := by rw [hv]; rfl
  obtain ⟨b, hb, hl⟩ := server_error_response cfg tr now bufLen req hbuf hpay hreq hr hnd
  obtain ⟨_, _, h2, h3, _, han, hns, har, hrest⟩ := errResp_facts _ _ _ _ hl
  obtain ⟨_, _, _, _, _, _, _, f8⟩ := flags_facts b req _ (verdictRcode_lt _) h2 h3
  have he : (specScanWith (catKind cfg) cfg.payload req).edns = true := by
    have := (specBody_props (catKind cfg) cfg.payload req).1
    rw [specScanWith_eq] at hv hr ⊢
    by_cases h12 : req.size < 12
    · simp only [h12, if_true] at hr; cases hr
    · by_cases hqr : (req.getD 2 0).toNat ≥ 128
      · simp only [h12, hqr, if_false, if_true] at hr; cases hr
      · simp only [h12, hqr, if_false] at hv ⊢
        exact this hv
  rw [he] at har
  refine ⟨b, hb, by rw [f8, hv]; rfl, han, hns, by simpa using har, ?_⟩
  rw [hrest]
  simp [specOptOctets, he, hv, verdictRcode, optRecordOctets, u16be]

/-- **Theorem (answers).** When a loaded zone answers: the response is what the answering phase
    wrote (`answerState`, counts filled in), followed — if and only if the scan reached an OPT in the
    request — by exactly one OPT record with owner root, TYPE 41, CLASS = the server's payload size,
    EDNS version 0, flags 0 and no options, which is then the last record of the message. -/
theorem C09_answer_opt (cfg : Server.Cfg) (tr : Server.Transport) (now bufLen : Nat) (req : Bytes)
    (hbuf : minBuf tr cfg.payload ≤ bufLen) (hpay : 512 ≤ cfg.payload) (hreq : req.size ≤ Rdata.USIZE_MAX)
    (hv : (specScanWith (catKind cfg) cfg.payload req).verdict = .answer)
    (b : Bytes) (h : Server.handleMessage cfg tr now bufLen req = .ok (some b)) :
    if (specScanWith (catKind cfg) cfg.payload req).edns then
      b.size = (answerState cfg tr now bufLen req).cursor + 11 ∧
      (∀ i, i < (answerState cfg tr now bufLen req).cursor →
        b[i]? = (Writer.withCounts (answerState cfg tr now bufLen req))[i]?) ∧
      ∃ upper, b.toList.drop (b.size - 11) = optRecordOctets cfg.payload upper
    else
      b = (Writer.withCounts (answerState cfg tr now bufLen req)).extract 0
        (answerState cfg tr now bufLen req).cursor := by
  have := answer_finish cfg tr now bufLen req hbuf hpay hreq hv b h
  cases he : (specScanWith (catKind cfg) cfg.payload req).edns with
  | false => rw [he] at this; simpa using this
  | true =>
    rw [he] at this
    simp only [if_true] at this ⊢
    obtain ⟨h1, h2, x, h3⟩ := this
    refine ⟨h1, h2, x.toNat, ?_⟩
    rw [h1, Nat.add_sub_cancel, h3]
    simp [optRecordOctets]

/-! ### TSIG-signed requests -/

/-- **Theorem (signed, no-data).** An authenticated request with a no-data verdict: ARCOUNT is
    (OPT ? 2 : 1) and after the question come exactly the OPT record — iff the scan reached an OPT —
    and the TSIG record. -/
theorem C09_signed_nodata_opt (cfg : Server.Cfg) (hcfg : ServerSafety.CfgWF cfg) (tr : Server.Transport)
    (now bufLen : Nat) (req : Bytes)
    (hbuf : minBuf tr cfg.payload ≤ bufLen) (hpay : 512 ≤ cfg.payload) (hreq : req.size ≤ Rdata.USIZE_MAX)
    (hnow : now < 2^48)
    (hr : (specScanWith (catKind cfg) cfg.payload req).respond = true)
    (hv : (specScanWith (catKind cfg) cfg.payload req).verdict = .tsigReached) :
    ∃ (t : Tsig.ReadTsigRr) (mw : Bytes) (r' : Reader.Reader), r'.octets = req ∧ r'.cursor ≤ req.size ∧
      ∀ r'' S, Server.tsigAfter cfg now t mw r' (preTsigState cfg tr bufLen req) = (.ok (some r''), S) →
      ∀ v, (v = Verdict.formErr ∨ v = .notImp ∨ v = .refused ∨ v = .servFailZone) →
        endVerdict (catKind cfg) req.size (specScanWith (catKind cfg) cfg.payload req).question
          r'.cursor ((req.getD 2 0).toNat / 8 % 16) = v →
        ∃ b, Server.handleMessage cfg tr now bufLen req = .ok (some b) ∧
          hdr b 10 = (if (specScanWith (catKind cfg) cfg.payload req).edns then 2 else 1) ∧
          ∃ oe ts mac, Writer.NameShape ts.rr.keyName oe ∧
            b.toList.drop 12 = specQuestionOctets (specScanWith (catKind cfg) cfg.payload req).question ++
              (if (specScanWith (catKind cfg) cfg.payload req).edns then optRecordOctets cfg.payload 0 else []) ++
              Writer.tsigRecordOctets oe ts mac := by
  obtain ⟨t, mw, r', h1, h2, h3⟩ := signed_noData_full cfg hcfg tr now bufLen req hbuf hpay hreq hnow hr hv
  refine ⟨t, mw, r', h1, h2, fun r'' S hT v hvv hev => ?_⟩
  obtain ⟨b, hb, hS⟩ := h3 r'' S hT v hvv hev
  obtain ⟨oe, ts, mac, hsh, hrest⟩ := hS.rest
  refine ⟨b, hb, hS.ar, oe, ts, mac, hsh, ?_⟩
  rw [hrest]
  unfold signedOptOctets optRecordOctets
  cases (specScanWith (catKind cfg) cfg.payload req).edns <;> simp [u16be]

/-- **Theorem (signed, rejected).** A request that the TSIG step does not authenticate (reply TSIG
    fits): the NOTAUTH / FORMERR response holds, after the question, exactly the OPT record — iff the
    scan reached an OPT — and the TSIG record. -/
theorem C09_signed_error_opt (cfg : Server.Cfg) (tr : Server.Transport) (now bufLen : Nat) (req : Bytes)
    (hbuf : minBuf tr cfg.payload ≤ bufLen) (hpay : 512 ≤ cfg.payload) (hreq : req.size ≤ Rdata.USIZE_MAX)
    (hr : (specScanWith (catKind cfg) cfg.payload req).respond = true)
    (hv : (specScanWith (catKind cfg) cfg.payload req).verdict = .tsigReached) :
    ∃ (t : Tsig.ReadTsigRr) (mw : Bytes) (r' : Reader.Reader), r'.octets = req ∧ r'.cursor ≤ req.size ∧
      ∀ nowT kn an rc mode rr, Tsig.TimeSigned.tryFromUnix now = some nowT →
        Writer.WName.parse t.keyName = some (kn, []) → Writer.WName.parse t.algorithm = some (an, []) →
        tsigStopReply Tsig.realHmac cfg.keys nowT t mw.toList kn an = some (rc, mode, rr) →
        ServerTsig.TsigFits (preTsigState cfg tr bufLen req) mode rr →
        ∀ b, Server.handleMessage cfg tr now bufLen req = .ok (some b) →
          hdr b 10 = (if (specScanWith (catKind cfg) cfg.payload req).edns then 2 else 1) ∧
          ∃ oe ts mac, Writer.NameShape ts.rr.keyName oe ∧
            b.toList.drop 12 = specQuestionOctets (specScanWith (catKind cfg) cfg.payload req).question ++
              (if (specScanWith (catKind cfg) cfg.payload req).edns then optRecordOctets cfg.payload 0 else []) ++
              Writer.tsigRecordOctets oe ts mac := by
  obtain ⟨t, mw, r', h1, h2, h3⟩ := tsig_error_response cfg tr now bufLen req hbuf hpay hreq hr hv
  refine ⟨t, mw, r', h1, h2, fun nowT kn an rc mode rr hnow hkn han hrep hfit b hb => ?_⟩
  obtain ⟨oe, sT, _, hsh, _, hbl⟩ := h3 nowT kn an rc mode rr hnow hkn han hrep hfit b hb
  have hrc : rc < 16 := by rcases tsigStopReply_rc hrep with rfl | rfl <;> omega
  have hS := signedNoData_of_list req cfg.payload _ rc hrc oe _ _ hsh b hbl
  obtain ⟨oe', ts, mac, hsh', hrest⟩ := hS.rest
  refine ⟨hS.ar, oe', ts, mac, hsh', ?_⟩
  rw [hrest]
  unfold signedOptOctets optRecordOctets
  cases (specScanWith (catKind cfg) cfg.payload req).edns <;> simp [u16be]

/-- **Theorem (signed, answered).** An authenticated request that a loaded zone answers: the
    response is `pre ++ TSIG record`, and `pre` ends with exactly one OPT record of the prescribed
    shape iff the scan reached an OPT (otherwise `pre` is what the answering phase wrote). -/
theorem C09_signed_answer_opt (cfg : Server.Cfg) (tr : Server.Transport) (now bufLen : Nat) (req : Bytes)
    (hbuf : minBuf tr cfg.payload ≤ bufLen) (hpay : 512 ≤ cfg.payload) (hreq : req.size ≤ Rdata.USIZE_MAX)
    (hr : (specScanWith (catKind cfg) cfg.payload req).respond = true)
    (hv : (specScanWith (catKind cfg) cfg.payload req).verdict = .tsigReached) :
    ∃ (t : Tsig.ReadTsigRr) (mw : Bytes) (r' : Reader.Reader), r'.octets = req ∧ r'.cursor ≤ req.size ∧
      ∀ r'' S, Server.tsigAfter cfg now t mw r' (preTsigState cfg tr bufLen req) = (.ok (some r''), S) →
        endVerdict (catKind cfg) req.size (specScanWith (catKind cfg) cfg.payload req).question
          r'.cursor ((req.getD 2 0).toNat / 8 % 16) = .answer →
      ∀ b, Server.handleMessage cfg tr now bufLen req = .ok (some b) →
        ∃ pre oe ts mac, Writer.NameShape ts.rr.keyName oe ∧ b.toList = pre ++ Writer.tsigRecordOctets oe ts mac ∧
          ((specScanWith (catKind cfg) cfg.payload req).edns = true →
            ∃ x upper, pre = x ++ optRecordOctets cfg.payload upper) ∧
          ((specScanWith (catKind cfg) cfg.payload req).edns = false →
            ∃ w1 : Writer.State, pre = Writer.finishPrefix w1) := by
  obtain ⟨t, mw, r', h1, h2, h3⟩ := signed_answer_response cfg tr now bufLen req hbuf hpay hreq hr hv
  refine ⟨t, mw, r', h1, h2, fun r'' S hT hev b hb => ?_⟩
  obtain ⟨nowT, alg, key, kn, _, _, _, _, _, pre, oe, hsh, hbl, hopt, hno⟩ := h3 r'' S hT hev b hb
  refine ⟨pre, oe, _, _, hsh, hbl, fun he => ?_, hno⟩
  obtain ⟨x, upper, hx⟩ := hopt he
  refine ⟨x, upper, ?_⟩
  rw [hx, Writer.optRecord_shape]
  simp [optRecordOctets]

/-! ### on the independent decoding of the response (`C09_full`'s own terms) -/

/-- the first two clauses of `C09_full` for one decoded response -/
def OptClauses (payload : Nat) (edns : Bool) (d : Spec.DMsg) : Prop :=
  ((d.ar.filter (fun r => r.ty = 41)).length = (if edns then 1 else 0)) ∧
  (∀ o ∈ d.ar, o.ty = 41 → o.owner = [0] ∧ o.cls = payload ∧ o.rawTtl / 65536 % 256 = 0)

/-- **the bridge**: whenever the writer handed to `finish` was reached from `Writer::new` by public
    calls (`Good`: the writer's invariant and content layout, C12), its own additional records are
    address records, and its EDNS slot is set — with the server's payload size and an extended-RCODE
    octet — iff the scan reached an OPT: every decoding of the finished message satisfies the OPT
    clauses, and the OPT's TTL is that octet shifted to the top. -/
theorem C09_decoded_of_good (payload up : Nat) (hp16 : payload ≤ 65535) (hup : up < 256) (edns : Bool)
    (F : Writer.State) (bd : Writer.Body) (hG : Good F bd) (hty : ∀ r ∈ bd.ar, r.ty = 1 ∨ r.ty = 28)
    (he : F.edns = (if edns then some ⟨payload, up⟩ else none)) (b : Bytes) (mac : Option (List UInt8))
    (hf : Writer.finish F Server.macFn = .ok (b, mac)) (d : Spec.DMsg) (hd : Spec.specDecodeMsg b = some d) :
    OptClauses payload edns d ∧ (∀ o ∈ d.ar, o.ty = 41 → o.rawTtl / 16777216 = up) ∧
    d.an.length = bd.an.length ∧ d.ns.length = bd.ns.length := by
  obtain ⟨h1, h2, h3, h4⟩ := opt_of_good Server.macFn F bd hG hty b mac hf d hd
  have hs : F.edns.isSome = edns := by rw [he]; cases edns <;> rfl
  refine ⟨⟨by rw [h1, hs], fun o ho hot => ?_⟩, fun o ho hot => ?_, h3, h4⟩
  · obtain ⟨e, hee, q1, q2, q3⟩ := h2 o ho hot
    rw [he] at hee
    cases edns with
    | false => cases hee
    | true =>
      simp only [if_true, Option.some.injEq] at hee
      subst hee
      have e1 : ({ payload := payload, upper := up } : Writer.Edns).payload = payload := rfl
      have e2 : ({ payload := payload, upper := up } : Writer.Edns).upper = up := rfl
      rw [e1] at q2
      rw [e2] at q3
      exact ⟨q1, by rw [q2]; exact Nat.mod_eq_of_lt (by omega), by rw [q3]; omega⟩
  · obtain ⟨e, hee, _, _, q3⟩ := h2 o ho hot
    rw [he] at hee
    cases edns with
    | false => cases hee
    | true =>
      simp only [if_true, Option.some.injEq] at hee
      subst hee
      have e2 : ({ payload := payload, upper := up } : Writer.Edns).upper = up := rfl
      rw [e2] at q3
      rw [q3]; omega

/-- **`C09_full` for every request whose verdict the scan decides alone** (FORMERR, BADVERS, NOTIMP,
    REFUSED, SERVFAIL-not-loaded): all three clauses, on every independent decoding of the response -/
theorem C09_decoded_unsigned (cfg : Server.Cfg) (tr : Server.Transport) (now bufLen : Nat) (req : Bytes)
    (hbuf : minBuf tr cfg.payload ≤ bufLen) (hpay : 512 ≤ cfg.payload) (hp16 : cfg.payload ≤ 65535)
    (hreq : req.size ≤ Rdata.USIZE_MAX)
    (hr : (specScanWith (catKind cfg) cfg.payload req).respond = true)
    (hv : noDataV (specScanWith (catKind cfg) cfg.payload req).verdict = true) :
    ∀ b, Server.handleMessage cfg tr now bufLen req = .ok (some b) →
      ∀ d, Spec.specDecodeMsg b = some d →
        OptClauses cfg.payload (specScanWith (catKind cfg) cfg.payload req).edns d ∧
        d.an = [] ∧ d.ns = [] ∧
        ((specScanWith (catKind cfg) cfg.payload req).verdict = .badVers →
          d.rcode = 0 ∧ ∀ o ∈ d.ar, o.ty = 41 → o.rawTtl / 16777216 = 1) := by
  intro b hb d hd
  have hbv0 : (specScanWith (catKind cfg) cfg.payload req).verdict = .badVers → d.rcode = 0 := by
    intro hbv
    obtain ⟨b2, hb2, hrc, _⟩ := C09_badvers cfg tr now bufLen req hbuf hpay hreq hr hbv
    rw [hb] at hb2
    simp only [Out.ok.injEq, Option.some.injEq] at hb2
    subst hb2
    show d.flags % 16 = 0
    rw [decode_flags b d hd]; exact hrc
  obtain ⟨F, b', mac, hb', hf, hG, _, he⟩ := unsigned_nodata_final cfg tr now bufLen req hbuf hpay hp16 hreq hr hv
  rw [hb] at hb'
  simp only [Out.ok.injEq, Option.some.injEq] at hb'
  subst hb'
  obtain ⟨hq1, hq2, hq3⟩ := qBody_norecs (specScanWith (catKind cfg) cfg.payload req).question
  have hup : (verdictRcode (specScanWith (catKind cfg) cfg.payload req).verdict).2 < 256 := by
    cases (specScanWith (catKind cfg) cfg.payload req).verdict <;> simp [verdictRcode]
  obtain ⟨c1, c2, c3, c4⟩ := C09_decoded_of_good cfg.payload _ hp16 hup _ F _ hG (by rw [hq3]; simp) he b mac hf d hd
  rw [hq1] at c3
  rw [hq2] at c4
  refine ⟨c1, List.length_eq_zero_iff.mp c3, List.length_eq_zero_iff.mp c4, fun hbv => ⟨hbv0 hbv, fun o ho hot => ?_⟩⟩
  rw [c2 o ho hot, hbv]; rfl

/-- **`C09_full`'s OPT clauses for authenticated signed requests with a no-data verdict** -/
theorem C09_decoded_signed_nodata (cfg : Server.Cfg) (tr : Server.Transport) (now bufLen : Nat) (req : Bytes)
    (hbuf : minBuf tr cfg.payload ≤ bufLen) (hpay : 512 ≤ cfg.payload) (hp16 : cfg.payload ≤ 65535)
    (hreq : req.size ≤ Rdata.USIZE_MAX)
    (hr : (specScanWith (catKind cfg) cfg.payload req).respond = true)
    (hv : (specScanWith (catKind cfg) cfg.payload req).verdict = .tsigReached) :
    ∃ (t : Tsig.ReadTsigRr) (mw : Bytes) (r' : Reader.Reader), r'.octets = req ∧ r'.cursor ≤ req.size ∧
      ∀ r'' S, Server.tsigAfter cfg now t mw r' (preTsigState cfg tr bufLen req) = (.ok (some r''), S) →
      ∀ v, (v = Verdict.formErr ∨ v = .notImp ∨ v = .refused ∨ v = .servFailZone) →
        endVerdict (catKind cfg) req.size (specScanWith (catKind cfg) cfg.payload req).question
          r'.cursor ((req.getD 2 0).toNat / 8 % 16) = v →
      ∀ b, Server.handleMessage cfg tr now bufLen req = .ok (some b) →
        ∀ d, Spec.specDecodeMsg b = some d →
          OptClauses cfg.payload (specScanWith (catKind cfg) cfg.payload req).edns d ∧ d.an = [] ∧ d.ns = [] := by
  obtain ⟨t, mw, r', h1, h2, h3⟩ := signed_nodata_final cfg tr now bufLen req hbuf hpay hp16 hreq hr hv
  refine ⟨t, mw, r', h1, h2, fun r'' S hT v hvv hev b hb d hd => ?_⟩
  obtain ⟨nowT, alg, key, kn, F, mac, _, _, _, _, _, hf, hG, _, he, _⟩ := h3 r'' S hT v hvv hev b hb
  obtain ⟨hq1, hq2, hq3⟩ := qBody_norecs (specScanWith (catKind cfg) cfg.payload req).question
  obtain ⟨c1, _, c3, c4⟩ := C09_decoded_of_good cfg.payload 0 hp16 (by omega) _ F _ hG (by rw [hq3]; simp) he b mac hf d hd
  rw [hq1] at c3
  rw [hq2] at c4
  exact ⟨c1, List.length_eq_zero_iff.mp c3, List.length_eq_zero_iff.mp c4⟩

/-- **`C09_full`'s OPT clauses for signed requests that the TSIG step rejects** (reply TSIG fits) -/
theorem C09_decoded_signed_error (cfg : Server.Cfg) (tr : Server.Transport) (now bufLen : Nat) (req : Bytes)
    (hbuf : minBuf tr cfg.payload ≤ bufLen) (hpay : 512 ≤ cfg.payload) (hp16 : cfg.payload ≤ 65535)
    (hreq : req.size ≤ Rdata.USIZE_MAX)
    (hr : (specScanWith (catKind cfg) cfg.payload req).respond = true)
    (hv : (specScanWith (catKind cfg) cfg.payload req).verdict = .tsigReached) :
    ∃ (t : Tsig.ReadTsigRr) (mw : Bytes) (r' : Reader.Reader), r'.octets = req ∧ r'.cursor ≤ req.size ∧
      ∀ nowT kn an rc mode rr, Tsig.TimeSigned.tryFromUnix now = some nowT →
        Writer.WName.parse t.keyName = some (kn, []) → Writer.WName.parse t.algorithm = some (an, []) →
        tsigStopReply Tsig.realHmac cfg.keys nowT t mw.toList kn an = some (rc, mode, rr) →
        ServerTsig.TsigFits (preTsigState cfg tr bufLen req) mode rr →
        ∀ b, Server.handleMessage cfg tr now bufLen req = .ok (some b) →
          ∀ d, Spec.specDecodeMsg b = some d →
            OptClauses cfg.payload (specScanWith (catKind cfg) cfg.payload req).edns d ∧ d.an = [] ∧ d.ns = [] := by
  obtain ⟨t, mw, r', h1, h2, h3⟩ := signed_error_final cfg tr now bufLen req hbuf hpay hp16 hreq hr hv
  refine ⟨t, mw, r', h1, h2, fun nowT kn an rc mode rr hnow hkn han hrep hfit b hb d hd => ?_⟩
  obtain ⟨F, mac, hf, hG, _, he, _⟩ := h3 nowT kn an rc mode rr hnow hkn han hrep hfit b hb
  obtain ⟨hq1, hq2, hq3⟩ := qBody_norecs (specScanWith (catKind cfg) cfg.payload req).question
  obtain ⟨c1, _, c3, c4⟩ := C09_decoded_of_good cfg.payload 0 hp16 (by omega) _ F _ hG (by rw [hq3]; simp) he b mac hf d hd
  rw [hq1] at c3
  rw [hq2] at c4
  exact ⟨c1, List.length_eq_zero_iff.mp c3, List.length_eq_zero_iff.mp c4⟩

/-- the bridge again, for writers whose EDNS slot is known up to the extended-RCODE octet (the
    answering phase resets it with every `set_rcode`): the OPT clauses of `C09_full` need the
    payload size only — the version octet of the OPT's TTL is 0 whatever that octet is -/
theorem C09_optClauses_of_good (payload : Nat) (hp16 : payload ≤ 65535) (edns : Bool)
    (F : Writer.State) (bd : Writer.Body) (hG : Good F bd) (hty : ∀ r ∈ bd.ar, r.ty = 1 ∨ r.ty = 28)
    (he : F.edns.map (·.payload) = (if edns then some payload else none)) (b : Bytes) (mac : Option (List UInt8))
    (hf : Writer.finish F Server.macFn = .ok (b, mac)) (d : Spec.DMsg) (hd : Spec.specDecodeMsg b = some d) :
    OptClauses payload edns d ∧ d.an.length = bd.an.length ∧ d.ns.length = bd.ns.length := by
  obtain ⟨c1, c2, c3, c4⟩ := opt_of_good Server.macFn F bd hG hty b mac hf d hd
  have hs : F.edns.isSome = edns := by
    cases edns <;> cases hw : F.edns <;> rw [hw] at he <;> simp at he ⊢
  refine ⟨⟨by rw [c1, hs], fun o ho hot => ?_⟩, c3, c4⟩
  obtain ⟨ed, hed, q1, q2, q3⟩ := c2 o ho hot
  rw [hed] at he
  cases edns with
  | false => simp at he
  | true =>
    simp only [if_true, Option.map_some, Option.some.injEq] at he
    refine ⟨q1, by rw [q2, he]; exact Nat.mod_eq_of_lt (by omega), ?_⟩
    rw [q3]; omega

/-- **`C09_full`'s OPT clauses for every response that a loaded zone produces** (verdict `answer`:
    answers, CNAME chains, referrals, negative answers, SERVFAIL and truncation epilogues), on every
    independent decoding of the response.  The final writer is `Good` with the question and the
    records of the successful calls of the answering phase as its body
    (`ServerContent.answer_final_good`: the induction over `handle_non_axfr_query` that ties the ghost
    log to the writer's content layout), its own additional records are address records, and the
    answering phase keeps the EDNS payload (`hwc_answer_slot`). -/
theorem C09_decoded_answer (cfg : Server.Cfg) (hcfg : ServerSafety.CfgWF cfg) (tr : Server.Transport)
    (now bufLen : Nat) (req : Bytes)
    (hbuf : minBuf tr cfg.payload ≤ bufLen) (hpay : 512 ≤ cfg.payload) (hp16 : cfg.payload ≤ 65535)
    (hreq : req.size ≤ Rdata.USIZE_MAX)
    (hv : (specScanWith (catKind cfg) cfg.payload req).verdict = .answer) :
    ∀ b, Server.handleMessage cfg tr now bufLen req = .ok (some b) →
      ∀ d, Spec.specDecodeMsg b = some d →
        OptClauses cfg.payload (specScanWith (catKind cfg) cfg.payload req).edns d := by
  intro b h d hd
  have h12 : 12 ≤ req.size := by
    by_cases hc : req.size < 12
    · rw [handleMessage_short cfg tr now bufLen req hbuf hc] at h; cases h
    · omega
  have hqr : (req.getD 2 0).toNat < 128 := by
    by_cases hc : (req.getD 2 0).toNat ≥ 128
    · rw [handleMessage_qr cfg tr now bufLen req hbuf h12 hc] at h; cases h
    · omega
  rw [specScanWith_eq] at hv ⊢
  simp only [show ¬ req.size < 12 by omega, show ¬ (req.getD 2 0).toNat ≥ 128 by omega, if_false] at hv ⊢
  obtain ⟨_, he⟩ := hwc_answer_slot cfg tr now bufLen req hbuf hpay h12 hreq (Spec.Server.hdr req 0)
    (((req.getD 2 0).toNat &&& 120) >>> 3) (((req.getD 2 0).toNat &&& 1) != 0) hv
  obtain ⟨bd, hG, _, hty⟩ := ServerContent.answer_final_good cfg hcfg tr now bufLen req hbuf hpay hp16 h12 hreq
    (Spec.Server.hdr req 0) (((req.getD 2 0).toNat &&& 120) >>> 3) (((req.getD 2 0).toNat &&& 1) != 0) hv
  rw [handleMessage_eq cfg tr now bufLen req hbuf hpay h12 hqr] at h
  rcases hh : Server.handleWithContext cfg tr now ⟨req, 12, none⟩
      (hdrSt (w0 bufLen (lim0 tr)) (Spec.Server.hdr req 0) (((req.getD 2 0).toNat &&& 120) >>> 3)
        (((req.getD 2 0).toNat &&& 1) != 0)) with ⟨(bb | e | _), w1⟩
  · rw [hh] at h he hG
    simp only at he hG
    cases bb with
    | false => simp only at h; cases h
    | true =>
      simp only at h
      rcases hf : Writer.finish w1 Server.macFn with ⟨bytes, mac⟩ | e | _
      · rw [hf] at h
        simp only [Out.ok.injEq, Option.some.injEq] at h
        subst h
        exact (C09_optClauses_of_good cfg.payload hp16 _ w1 bd hG hty he bytes mac hf d hd).1
      · rw [hf] at h; cases h
      · rw [hf] at h; cases h
  · rw [hh] at h; cases h
  · rw [hh] at h; cases h

/-- **`C09_full`'s OPT clauses for authenticated signed requests that a loaded zone answers** -/
theorem C09_decoded_signed_answer (cfg : Server.Cfg) (hcfg : ServerSafety.CfgWF cfg) (tr : Server.Transport)
    (now bufLen : Nat) (req : Bytes)
    (hbuf : minBuf tr cfg.payload ≤ bufLen) (hpay : 512 ≤ cfg.payload) (hp16 : cfg.payload ≤ 65535)
    (hreq : req.size ≤ Rdata.USIZE_MAX)
    (hr : (specScanWith (catKind cfg) cfg.payload req).respond = true)
    (hv : (specScanWith (catKind cfg) cfg.payload req).verdict = .tsigReached) :
    ∃ (t : Tsig.ReadTsigRr) (mw : Bytes) (r' : Reader.Reader), r'.octets = req ∧ r'.cursor ≤ req.size ∧
      ∀ r'' S, Server.tsigAfter cfg now t mw r' (preTsigState cfg tr bufLen req) = (.ok (some r''), S) →
        endVerdict (catKind cfg) req.size (specScanWith (catKind cfg) cfg.payload req).question
          r'.cursor ((req.getD 2 0).toNat / 8 % 16) = .answer →
      ∀ b, Server.handleMessage cfg tr now bufLen req = .ok (some b) →
        ∀ d, Spec.specDecodeMsg b = some d →
          OptClauses cfg.payload (specScanWith (catKind cfg) cfg.payload req).edns d := by
  obtain ⟨t, mw, r', h1, h2, h3⟩ := ServerContent.signed_answer_final cfg hcfg tr now bufLen req hbuf hpay hp16 hreq hr hv
  refine ⟨t, mw, r', h1, h2, fun r'' S hT hev b hb d hd => ?_⟩
  obtain ⟨nowT, alg, key, kn, F, mac, bd, _, _, _, _, _, hf, hG, _, hty, _, he⟩ := h3 r'' S hT hev b hb
  exact (C09_optClauses_of_good cfg.payload hp16 _ F bd hG hty he b mac hf d hd).1

/-- **`C09_full`'s OPT clauses for signed requests whose reply TSIG does not fit** (RFC 8945 §5.3, the
    repair of D03: TC set, RCODE 0, no TSIG record), with the rest of the decoded shape: no answer or
    authority data, and the additional section is exactly the OPT record iff the scan reached one -/
theorem C09_decoded_signed_nofit (cfg : Server.Cfg) (tr : Server.Transport) (now bufLen : Nat) (req : Bytes)
    (hbuf : minBuf tr cfg.payload ≤ bufLen) (hpay : 512 ≤ cfg.payload) (hp16 : cfg.payload ≤ 65535)
    (hreq : req.size ≤ Rdata.USIZE_MAX)
    (hr : (specScanWith (catKind cfg) cfg.payload req).respond = true)
    (hv : (specScanWith (catKind cfg) cfg.payload req).verdict = .tsigReached) :
    ∃ (t : Tsig.ReadTsigRr) (mw : Bytes) (r' : Reader.Reader), r'.octets = req ∧ r'.cursor ≤ req.size ∧
      ∀ nowT kn, Tsig.TimeSigned.tryFromUnix now = some nowT → Writer.WName.parse t.keyName = some (kn, []) →
        ServerContent.NoFit cfg nowT t mw kn (preTsigState cfg tr bufLen req) →
        ∀ b, Server.handleMessage cfg tr now bufLen req = .ok (some b) →
          ∀ d, Spec.specDecodeMsg b = some d →
            OptClauses cfg.payload (specScanWith (catKind cfg) cfg.payload req).edns d ∧
            d.tc = true ∧ d.rcode = 0 ∧ d.an = [] ∧ d.ns = [] ∧
            d.ar.length = (if (specScanWith (catKind cfg) cfg.payload req).edns then 1 else 0) ∧
            ∀ o ∈ d.ar, o.ty = 41 := by
  obtain ⟨t, mw, r', h1, h2, h3⟩ := ServerContent.signed_nofit_final cfg tr now bufLen req hbuf hpay hp16 hreq hr hv
  refine ⟨t, mw, r', h1, h2, fun nowT kn hnow hkn hnf b hb d hd => ?_⟩
  obtain ⟨F, mac, hf, hG, hts, he, hh⟩ := h3 nowT kn hnow hkn hnf b hb
  obtain ⟨hq1, hq2, hq3⟩ := qBody_norecs (specScanWith (catKind cfg) cfg.payload req).question
  obtain ⟨c1, _, _⟩ := C09_optClauses_of_good cfg.payload hp16 _ F _ hG (by rw [hq3]; simp) he b mac hf d hd
  obtain ⟨r1, r2, _, r4, r5, r6, r7⟩ := ServerContent.decoded_nofit F _ ⟨hq1, hq2, hq3⟩ hG hts hh b mac hf d hd
  refine ⟨c1, r1, r2, r4, r5, ?_, r7⟩
  rw [r6]
  cases hed : (specScanWith (catKind cfg) cfg.payload req).edns <;> rw [hed] at he <;>
    cases hw : F.edns <;> rw [hw] at he <;> simp at he ⊢

/-- **C09 at full strength** (statement amended with the API's guarantees, see the header): for every
    configuration the API can hold, every transport, clock, buffer and request, every independent
    decoding of the response has exactly one OPT record — owner root, CLASS = the server's payload
    size, version 0 — iff the scan reached an OPT in the request's additional section, and none
    otherwise; a BADVERS response has extended-RCODE octet 1, RCODE bits 0 and no answer / authority
    data.  By cases over the scan's verdict: decided by the scan alone (`C09_decoded_unsigned`), a
    loaded zone answers (`C09_decoded_answer`), a TSIG record was reached
    (`ServerContent.signed_final_good`: rejected or authenticated, reply TSIG fitting or not, no-data
    or answered — the final writer is `Good` with the EDNS slot set iff the scan reached an OPT). -/
theorem C09 : C09_full := by
  intro cfg tr now bufLen req hbuf hpay hreq hcfg hp16 b hb d hd
  have hr : (specScanWith (catKind cfg) cfg.payload req).respond = true := by
    cases hres : (specScanWith (catKind cfg) cfg.payload req).respond with
    | true => rfl
    | false =>
      have := (handleMessage_none_iff cfg tr now bufLen req hbuf hpay (catKind cfg)).mpr hres
      rw [this] at hb; cases hb
  cases hv : (specScanWith (catKind cfg) cfg.payload req).verdict with
  | answer =>
    obtain ⟨c1, c2⟩ := C09_decoded_answer cfg hcfg tr now bufLen req hbuf hpay hp16 hreq hv b hb d hd
    exact ⟨c1, c2, fun h => by cases h⟩
  | tsigReached =>
    obtain ⟨F, mac, bd, hf, hG, _, hty, he⟩ :=
      ServerContent.signed_final_good cfg hcfg tr now bufLen req hbuf hpay hp16 hreq hr hv b hb
    obtain ⟨⟨c1, c2⟩, _⟩ := C09_optClauses_of_good cfg.payload hp16 _ F bd hG hty he b mac hf d hd
    exact ⟨c1, c2, fun h => by cases h⟩
  | formErr =>
    obtain ⟨⟨c1, c2⟩, _, _, _⟩ := C09_decoded_unsigned cfg tr now bufLen req hbuf hpay hp16 hreq hr (by rw [hv]; rfl) b hb d hd
    exact ⟨c1, c2, fun h => by cases h⟩
  | notImp =>
    obtain ⟨⟨c1, c2⟩, _, _, _⟩ := C09_decoded_unsigned cfg tr now bufLen req hbuf hpay hp16 hreq hr (by rw [hv]; rfl) b hb d hd
    exact ⟨c1, c2, fun h => by cases h⟩
  | refused =>
    obtain ⟨⟨c1, c2⟩, _, _, _⟩ := C09_decoded_unsigned cfg tr now bufLen req hbuf hpay hp16 hreq hr (by rw [hv]; rfl) b hb d hd
    exact ⟨c1, c2, fun h => by cases h⟩
  | servFailZone =>
    obtain ⟨⟨c1, c2⟩, _, _, _⟩ := C09_decoded_unsigned cfg tr now bufLen req hbuf hpay hp16 hreq hr (by rw [hv]; rfl) b hb d hd
    exact ⟨c1, c2, fun h => by cases h⟩
  | badVers =>
    obtain ⟨⟨c1, c2⟩, c3, c4, c5⟩ := C09_decoded_unsigned cfg tr now bufLen req hbuf hpay hp16 hreq hr (by rw [hv]; rfl) b hb d hd
    obtain ⟨c6, c7⟩ := c5 hv
    exact ⟨c1, c2, fun _ => ⟨c6, c7, c3, c4⟩⟩

/-! ### the decision at an OPT record (spec level) -/

/-- an OPT that parses but whose owner is not the root: FORMERR (as an EDNS response) -/
theorem C09_owner_not_root (msg : Bytes) (S n total pos lim : Nat) (d : Delim) (owner : List UInt8) (x y : Nat)
    (h : Spec.Server.specDelimit msg pos = some d) (ht : d.ty = 41)
    (hn : Spec.specDecodeName msg pos = some (owner, x, y))
    (ho : optRdataOk msg (d.rdlen + 1) (d.ownerEnd + 10) d.next = true) (hroot : owner ≠ [0]) :
    scanAr msg S (n + 1) total pos false lim = (.formErr, true, max 512 (min d.cls S)) := by
  unfold scanAr; rw [h]; simp [ht, hn, ho, hroot]

/-- a root-owned OPT with a version other than 0: BADVERS — whatever the other TTL bits, in
    particular the top bit (defect D06) -/
theorem C09_version (msg : Bytes) (S n total pos lim : Nat) (d : Delim) (x y : Nat)
    (h : Spec.Server.specDelimit msg pos = some d) (ht : d.ty = 41)
    (hn : Spec.specDecodeName msg pos = some ([0], x, y))
    (ho : optRdataOk msg (d.rdlen + 1) (d.ownerEnd + 10) d.next = true)
    (hver : d.rawTtl / 65536 % 256 ≠ 0) :
    scanAr msg S (n + 1) total pos false lim = (.badVers, true, max 512 (min d.cls S)) := by
  unfold scanAr; rw [h]; simp [ht, hn, ho, hver]

/-- the UDP size limit negotiated by a good OPT: the requestor's payload size, at least 512, at most
    the server's -/
theorem C09_limit (msg : Bytes) (S n total pos lim : Nat) (d : Delim) (x y : Nat)
    (h : Spec.Server.specDelimit msg pos = some d) (ht : d.ty = 41)
    (hn : Spec.specDecodeName msg pos = some ([0], x, y))
    (ho : optRdataOk msg (d.rdlen + 1) (d.ownerEnd + 10) d.next = true)
    (hver : d.rawTtl / 65536 % 256 = 0) :
    scanAr msg S (n + 1) total pos false lim = scanAr msg S n total d.next true (max 512 (min d.cls S)) := by
  simp [scanAr, h, ht, hn, ho, hver]

/-! ### non-vacuity -/

def exCfg : Server.Cfg := { payload := 1232, zones := [] }
/-- `. IN NS` + OPT (payload 4096, TTL 0) -/
def exEdns : Bytes :=
  #[0, 1, 1, 0, 0, 1, 0, 0, 0, 0, 0, 1, 0, 0, 2, 0, 1, 0, 0, 41, 16, 0, 0, 0, 0, 0, 0, 0]
/-- the same with EDNS version 1 *and* the TTL's top bit set (TTL = 0x80010000) -/
def exBadVers : Bytes :=
  #[0, 1, 1, 0, 0, 1, 0, 0, 0, 0, 0, 1, 0, 0, 2, 0, 1, 0, 0, 41, 16, 0, 0x80, 1, 0, 0, 0, 0]
/-- OPT with owner `x.` -/
def exOwner : Bytes :=
  #[0, 1, 1, 0, 0, 1, 0, 0, 0, 0, 0, 1, 0, 0, 2, 0, 1, 1, 120, 0, 0, 41, 16, 0, 0, 0, 0, 0, 0, 0]

example : (specScanWith (catKind exCfg) 1232 exEdns).edns = true ∧
    (specScanWith (catKind exCfg) 1232 exEdns).verdict = .refused ∧
    (specScanWith (catKind exCfg) 1232 exEdns).limitUdp = 1232 := by decide +kernel
example : (specScanWith (catKind exCfg) 1232 exBadVers).verdict = .badVers := by decide +kernel
example : (specScanWith (catKind exCfg) 1232 exOwner).verdict = .formErr ∧
    (specScanWith (catKind exCfg) 1232 exOwner).edns = true := by decide +kernel

/-- the regression witness of the repaired defect D06: version 1 hidden behind the TTL's top bit is
    answered BADVERS (header RCODE 0, OPT TTL 0x01000000), with the server's payload size 1232 =
    0x04d0 as CLASS, and no data -/
example : ∃ b, Server.handleMessage exCfg .udp 0 65535 exBadVers = .ok (some b) ∧
    b.toList = [0, 1, 0x81, 0, 0, 1, 0, 0, 0, 0, 0, 1, 0, 0, 2, 0, 1,
                0, 0, 41, 0x04, 0xd0, 1, 0, 0, 0, 0, 0] := by
  obtain ⟨b, hb, hl⟩ := server_error_response exCfg .udp 0 65535 exBadVers (by decide) (by decide) (by decide)
    (by decide +kernel) (by decide +kernel)
  exact ⟨b, hb, by rw [hl]; decide +kernel⟩

/-- zone `a.` (IN) whose apex holds one A RRset; `a. IN A` with an OPT: the hypotheses of
    `C09_answer_opt` hold (a loaded zone answers, the scan reached the OPT); `#eval` of the model gives
    the response `… c0 0c 00 01 00 01 00 00 00 3c 00 04 c0 00 02 01 | 00 00 29 04 d0 00 00 00 00 00 00` -/
def exZone : Zone.Zone := ⟨[[97]], 1, .narrow, .mk [⟨1, 60, [[192, 0, 2, 1]]⟩] []⟩
def exCfgA : Server.Cfg := { payload := 1232, zones := [⟨⟨[[97]]⟩, 1, .Loaded, exZone⟩] }
def exAns : Bytes :=
  #[0, 1, 1, 0, 0, 1, 0, 0, 0, 0, 0, 1, 1, 97, 0, 0, 1, 0, 1, 0, 0, 41, 16, 0, 0, 0, 0, 0, 0, 0]

example : (specScanWith (catKind exCfgA) 1232 exAns).verdict = .answer ∧
    (specScanWith (catKind exCfgA) 1232 exAns).edns = true := by decide +kernel

end QV.C09
