/-
  C30 — I/O providers answer each request once with correct framing.

  "For any sequence of length-prefixed requests sent on a TCP connection within the read timeout,
   split into segments arbitrarily and pipelined, the blocking and Tokio providers return one
   length-prefixed response per request in request order, each equal to the server's response to
   that request alone, and close the connection after a request that gets no response. Each UDP
   request datagram gets at most one response datagram, sent to its source and no larger than the
   configured payload size."

  Model: `QV.Framing` mirrors the read loop shared by src/io/blocking.rs and src/io/tokio.rs (buffer
  of 2 + 65535 octets, `n_read`, `received_len_opt`, leftover shifting).  Spec: `QV.Spec.Framing`
  (`respond` on messages, `deframe` on the byte stream).  The theorems hold for EVERY handler
  (`server.handle_message` is a parameter), every message sequence and every segmentation.

  PARTIAL with respect to the real runtime: the read timeout, write errors, shutdown, kernel
  buffering and the sockets themselves are not modelled; source-address selection of UDP replies
  is only observed by the correspondence run (group `framing`: loopback sockets against both
  providers, expected = the real `Server::handle_message` on each request alone).
-/
import QV.Proofs.Framing

namespace QV.C30
open QV QV.Framing QV.Spec.Framing

/-- **Segmentation independence.**  However the peer's octets are cut into segments (and however
    the kernel hands them to `read`), the connection handler produces what the stream-level spec
    says for the concatenation: the responses to the complete frames, in order, up to the first
    response-less one; a trailing incomplete frame is never handed to the server. -/
theorem C30_segmentation_independent (handler : List UInt8 → Option (List UInt8)) (segs : List (List UInt8))
    (hne : ∀ s ∈ segs, s ≠ []) :
    conn handler segs = ((specStream handler segs.flatten).1, endOf (specStream handler segs.flatten).2) := by
  unfold conn
  rw [connLoop_spec handler _ [] segs [] hne (by simp [CAP]) (by simp)]
  simp

/-- **Main theorem.**  For ANY requests `msgs` (each at most 65 535 octets) and ANY split of
    `concat (map frame msgs)` into non-empty segments, the handler is applied to exactly the
    requests in order, and the octets written are `concat (map (frame ∘ response) …)` of the
    requests up to the first one without a response, after which the connection is closed by the
    server (`noResponse`); if every request has a response the server keeps reading until the
    peer closes (`eof`). -/
theorem C30_one_response_per_request_in_order (handler : List UInt8 → Option (List UInt8))
    (msgs : List (List UInt8)) (hlen : ∀ m ∈ msgs, m.length ≤ 65535)
    (segs : List (List UInt8)) (hne : ∀ s ∈ segs, s ≠ [])
    (hsplit : segs.flatten = msgs.flatMap QV.Spec.Framing.frame) :
    conn handler segs = ((respond handler msgs).1, endOf (respond handler msgs).2) := by
  rw [C30_segmentation_independent handler segs hne, hsplit]
  unfold specStream
  have := deframe_frames msgs [] hlen
  simp at this
  rw [this]
  have : deframe ([] : List UInt8) = ([], []) := deframe_incomplete (by intro len h; cases h)
  simp [this]

/-- the same with a trailing incomplete frame (the peer closes in the middle of a request): the
    complete requests are answered as above, the partial one is never handled -/
theorem C30_eof_mid_frame (handler : List UInt8 → Option (List UInt8))
    (msgs : List (List UInt8)) (hlen : ∀ m ∈ msgs, m.length ≤ 65535) (partial_ : List UInt8)
    (hpart : ∀ len, lenPrefix partial_ = some len → ¬ len + 2 ≤ partial_.length)
    (segs : List (List UInt8)) (hne : ∀ s ∈ segs, s ≠ [])
    (hsplit : segs.flatten = msgs.flatMap QV.Spec.Framing.frame ++ partial_) :
    conn handler segs = ((respond handler msgs).1, endOf (respond handler msgs).2) := by
  rw [C30_segmentation_independent handler segs hne, hsplit]
  unfold specStream
  rw [deframe_frames msgs partial_ hlen, deframe_incomplete hpart]
  simp

/-- what `respond` means, part 1: if every request has a response, the output is exactly one
    framed response per request, in request order, and the connection stays open -/
theorem C30_respond_all (handler : List UInt8 → Option (List UInt8)) (msgs : List (List UInt8))
    (resp : List UInt8 → List UInt8) (h : ∀ m ∈ msgs, handler m = some (resp m)) :
    respond handler msgs = (msgs.flatMap (fun m => QV.Spec.Framing.frame (resp m)), .open) := by
  induction msgs with
  | nil => rfl
  | cons m ms ih =>
    simp only [respond, h m (by simp)]
    rw [ih (fun x hx => h x (by simp [hx]))]
    simp

/-- part 2: the first request without a response ends the conversation — nothing is written for
    it or for any later request, and the server closes the connection -/
theorem C30_respond_stops (handler : List UInt8 → Option (List UInt8)) (pre post : List (List UInt8)) (m : List UInt8)
    (resp : List UInt8 → List UInt8) (h : ∀ x ∈ pre, handler x = some (resp x)) (hm : handler m = none) :
    respond handler (pre ++ m :: post) = (pre.flatMap (fun x => QV.Spec.Framing.frame (resp x)), .closed) := by
  induction pre with
  | nil => simp [respond, hm]
  | cons a as ih =>
    simp only [List.cons_append, respond, h a (by simp)]
    rw [ih (fun x hx => h x (by simp [hx]))]
    simp

/-- **No slice panic, no spurious close.**  The loop never ends because the buffer was full or
    because the model's fuel ran out: a connection ends only because the peer closed or a request
    got no response.  (The buffer bound `n_read ≤ 2 + 65535` is part of `readMessage_spec`.) -/
theorem C30_ends_only_by_eof_or_no_response (handler : List UInt8 → Option (List UInt8)) (segs : List (List UInt8))
    (hne : ∀ s ∈ segs, s ≠ []) :
    (conn handler segs).2 = .eof ∨ (conn handler segs).2 = .noResponse := by
  rw [C30_segmentation_independent handler segs hne]
  cases (specStream handler segs.flatten).2 <;> simp [endOf]

/-- `n_read` never exceeds the buffer: whenever `read_message_over_tcp` returns a message, the
    buffer holds at most `2 + 65535` octets and contains the whole message -/
theorem C30_buffer_bounded (buf : List UInt8) (segs : List (List UInt8)) (hne : ∀ s ∈ segs, s ≠ [])
    (hcap : buf.length ≤ CAP) (len : Nat) (buf' : List UInt8) (segs' : List (List UInt8))
    (h : readMessage buf segs none = (.msg len, buf', segs')) :
    buf'.length ≤ CAP ∧ len + 2 ≤ buf'.length ∧ buf' ++ segs'.flatten = buf ++ segs.flatten := by
  have hs := readMessage_spec buf segs none hne hcap (fun _ h => by cases h)
  by_cases hc : ∃ l, lenPrefix (buf ++ segs.flatten) = some l ∧ l + 2 ≤ (buf ++ segs.flatten).length
  · obtain ⟨l, hp, hl⟩ := hc
    obtain ⟨b, sg, e, r⟩ := hs.1 l hp hl
    rw [h] at e; cases e
    exact ⟨r.2.2.1, r.2.1, r.1⟩
  · have := hs.2 (fun l hp hl => hc ⟨l, hp, hl⟩)
    rw [h] at this; cases this

/-- **Zero-length frame, exactly as coded**: the two octets `00 00` are a complete frame whose
    message is empty; the server is asked about the empty message (the real `handle_message`
    answers `Response::None` to anything shorter than a header, so the connection is closed). -/
theorem C30_zero_length_frame (handler : List UInt8 → Option (List UInt8)) (rest : List (List UInt8))
    (segs : List (List UInt8)) (hne : ∀ s ∈ segs, s ≠ []) (hlen : ∀ m ∈ rest, m.length ≤ 65535)
    (hsplit : segs.flatten = ([] :: rest).flatMap QV.Spec.Framing.frame) (h0 : handler [] = none) :
    conn handler segs = ([], .noResponse) := by
  rw [C30_one_response_per_request_in_order handler ([] :: rest)
    (fun m hm => by rcases List.mem_cons.mp hm with rfl | hm; simp; exact hlen m hm) segs hne hsplit]
  simp [respond, h0, endOf]

/-- non-vacuity: a split of two framed requests in the middle of a length prefix and in the middle
    of a message satisfies the hypotheses of the main theorem -/
example : ([[0], [1, 7, 0], [1], [9]] : List (List UInt8)).flatten =
    ([[7], [9]] : List (List UInt8)).flatMap QV.Spec.Framing.frame ∧
    (∀ s ∈ ([[0], [1, 7, 0], [1], [9]] : List (List UInt8)), s ≠ []) := by decide

/-- … and therefore that conversation is answered request by request -/
example (handler : List UInt8 → Option (List UInt8)) (r7 r9 : List UInt8)
    (h7 : handler [7] = some r7) (h9 : handler [9] = some r9) :
    conn handler [[0], [1, 7, 0], [1], [9]] =
      (QV.Spec.Framing.frame r7 ++ QV.Spec.Framing.frame r9, .eof) := by
  rw [C30_one_response_per_request_in_order handler [[7], [9]] (by decide) _ (by decide) (by decide)]
  simp [respond, h7, h9, endOf]

/-! ### UDP -/

/-- **At most one response datagram per request datagram, never larger than the payload size.** -/
theorem C30_udp_at_most_one (handler : List UInt8 → Option (List UInt8)) (payload : Nat) (d : List UInt8) :
    udpStep handler payload d = .none ∨ udpStep handler payload d = .panic ∨
    ∃ r, udpStep handler payload d = .send r ∧ r.length ≤ payload ∧ handler (d.take payload) = some r := by
  unfold udpStep
  cases h : handler (d.take payload) with
  | none => simp
  | some r =>
    by_cases hl : r.length ≤ payload
    · simp [hl]
    · simp [hl]

/-- the slice `&response_buf[0..response_len]` cannot panic when the server keeps its size
    contract (`handle_message` never reports more than the buffer it was given — C04) -/
theorem C30_udp_no_panic (handler : List UInt8 → Option (List UInt8)) (payload : Nat) (d : List UInt8)
    (hc : ∀ m r, handler m = some r → r.length ≤ payload) : udpStep handler payload d ≠ .panic := by
  unfold udpStep
  cases h : handler (d.take payload) with
  | none => simp
  | some r => simp [hc _ r h]

end QV.C30
