/-
  C11 — TSIG MACs match RFC 8945 and detect tampering.   (theorems follow; placeholder)
-/
import QV.Model.Tsig
import QV.Spec.Tsig

namespace QV.C11
open QV QV.Tsig

theorem C11_algorithms_match_source :
    Gen.tsigAlgorithms.map (fun r => (r.2.2.1, r.2.2.2.2)) =
      [(Algorithm.name .HmacSha1, Hmac.Alg.outputSize .HmacSha1),
       (Algorithm.name .HmacSha256, Hmac.Alg.outputSize .HmacSha256)] := algorithms_match_source

end QV.C11
