/-
  C11 — TSIG MACs match RFC 8945 and detect tampering.

  "Every MAC the library produces for request, response and subsequent messages equals an
   independent RFC 8945 §4.3 computation over the message (with original ID and decremented ARCOUNT)
   and the TSIG variables. Verification accepts exactly the messages whose MAC (possibly truncated to
   an allowed length) matches that computation and whose time is within the fudge window; changing
   any covered octet makes it fail."

  Model: `QV.Model.Tsig` (mirrors src/message/tsig.rs, src/rr/rdata/tsig.rs).
  Spec : `QV.Spec.Tsig`  (RFC 8945 §4.2, §4.3, §5.2.2.1, §5.2.3, §5.3.1 from the RFC text).

  Every theorem below holds for an **arbitrary MAC function**
      `hm : Algorithm → Octets → Octets → Octets`      (algorithm, key, data ↦ tag);
  nothing depends on SHA-1/SHA-256/HMAC (`QV.Model.Sha`, `QV.Model.Hmac`), which are tied to the
  crates by the correspondence check only.  Collision resistance of HMAC is *assumed, not proved*:
  the tamper theorems reduce "a changed message is accepted" to an explicit collision of the
  (truncated) MAC on two different inputs.

  The three modes are handled at once (`Mode`, `inputMode`, `signMode`, `verifyMode` in
  `QV.Proofs.Tsig` are case distinctions over `requestInput/responseInput/subsequentInput`,
  `signRequest/…`, `verifyRequest/…`).

  Preconditions of the code (documented in src/message/tsig.rs; outside them it panics):
    `MsgOk m`            the buffer has a 12-octet header and ARCOUNT ≥ 1 (it counts the TSIG RR);
                         ARCOUNT = 0 is the `- 1` underflow of `add_modified_message`.  `Writer::
                         finish_with_mac` meets it: `set_tsig` increments ARCOUNT before signing.
    `signAsserts`/`verifyAsserts`   the prior MAC has at most 65535 octets (asserted by `sign_response`,
                         `sign_subsequent`, `verify_response`; *not* by `verify_subsequent`, whose
                         length prefix silently wraps — see `C11_verify_subsequent_prior_mac_wraps`).
    `r.algorithm = alg.name`        the algorithm argument is the one the RR names (`assert_eq!`).
-/
import QV.Proofs.Tsig

namespace QV.C11
open QV QV.Tsig
open QV.Spec.Tsig (digestInput MacSizeAllowed TimeOk verdict Verdict)

variable (hm : Algorithm → Octets → Octets → Octets)

/-! ## 1. The MAC input is the RFC 8945 §4.3 construction -/

/-- **Digest input = RFC, all three modes, all inputs.**  Whenever the model's variables carry what
    the RFC's TSIG variables describe (`Abstracts`: key and algorithm name in canonical wire format,
    CLASS ANY, TTL 0, same time / fudge / error / other data), the octets fed to the MAC are exactly
    `[len ‖ prior MAC] ‖ message[ID := original ID, ARCOUNT − 1] ‖ variables` (timers only for a
    subsequent message) of the RFC — and the code panics exactly when the message has no full header
    or ARCOUNT = 0. -/
theorem C11_digest_input_eq_rfc {ε} (mode : Mode) (m pm : Octets) (id : UInt16) (v : Variables)
    (sv : Spec.Tsig.Vars) (h : Abstracts v sv) :
    inputMode (ε := ε) mode m pm id v =
      if MsgOk m then .ok (digestInput mode m id.toNat sv pm) else .panic :=
  inputMode_eq mode m pm id v sv h

/-- `Abstracts` is what the code's types give: a `LowercaseName` made from a name with labels `kl`
    is the canonical wire format of that name (RFC 4034 §6.2), whatever the case of its letters. -/
theorem C11_lowercase_name_is_canonical (kl al : List Octets) (ts : TimeSigned) (f e : UInt16) (o : Octets)
    (hk : ∀ l ∈ kl, l.length ≤ 63) (ha : ∀ l ∈ al, l.length ≤ 63) :
    Abstracts ⟨lowerName (wireOf kl), lowerName (wireOf al), ts, f, e, o⟩
      { keyName := kl, algName := al, timeSigned := ts.toUnix, fudge := f.toNat, error := e.toNat, other := o } :=
  ⟨lowerName_wireOf kl hk, lowerName_wireOf al ha, rfl, rfl, rfl, rfl, rfl, rfl⟩

/-- the two algorithm names of the code are the canonical forms of the names of RFC 8945 §6, with
    the output sizes of their hashes -/
theorem C11_algorithm_names :
    Spec.Tsig.algorithms.map (fun a => (Spec.Tsig.canonName a.1, a.2)) =
      [(Algorithm.name .HmacSha1, Hmac.Alg.outputSize .HmacSha1),
       (Algorithm.name .HmacSha256, Hmac.Alg.outputSize .HmacSha256)] := by decide

/-- … and they are the ones extracted from the source on this run -/
theorem C11_algorithms_match_source :
    Gen.tsigAlgorithms.map (fun r => (r.2.2.1, r.2.2.2.2)) =
      [(Algorithm.name .HmacSha1, Hmac.Alg.outputSize .HmacSha1),
       (Algorithm.name .HmacSha256, Hmac.Alg.outputSize .HmacSha256)] := algorithms_match_source

/-- **Every MAC the library produces equals the RFC computation** (request, response, subsequent):
    `sign_*` returns the tag of the RFC's digest input and the RDATA of RFC 8945 §4.2 built from it;
    it panics exactly outside its documented preconditions.  (`hlen` only excludes MAC functions
    with absurdly long tags, for which `serialize_rdata` would hit `RdataTooLongError`.) -/
theorem C11_sign_eq_rfc {ε} (mode : Mode) (p : PreparedTsigRr) (m pm : Octets) (alg : Algorithm) (key : Octets)
    (sv : Spec.Tsig.Vars) (h : Abstracts (p.vars alg.name) sv)
    (hlen : (hm alg key (digestInput mode m p.originalId.toNat sv pm)).length ≤ 65000) :
    signMode (ε := ε) hm mode p m pm alg key =
      if signAsserts mode pm ∧ MsgOk m then
        .ok (Spec.Tsig.rdata sv (hm alg key (digestInput mode m p.originalId.toNat sv pm)) p.originalId.toNat,
             hm alg key (digestInput mode m p.originalId.toNat sv pm))
      else .panic :=
  signMode_eq hm mode p m pm alg key sv h hlen

/-! ## 2. Verification accepts exactly … ; error precedence -/

/-- **The whole of `verify_*` as a decision table.**  In this order: the asserts (else panic); the
    truncation policy of §5.2.2.1 (else `FormErr`); the precondition on the message (else panic);
    the MAC compared with the first `mac_size` octets of the RFC computation (else `BadSig`); the
    time window of §5.2.3 (else `BadTime`); `Ok`.  So FormErr > BadSig > BadTime. -/
theorem C11_verify_decision (mode : Mode) (r : ReadTsigRr) (m pm : Octets) (alg : Algorithm) (key : Octets)
    (now : TimeSigned) (sv : Spec.Tsig.Vars) (hv : r.mac.length = r.macSize) (h : Abstracts r.vars sv) :
    verifyMode hm mode r m pm alg key now =
      if ¬ verifyAsserts mode pm ∨ r.algorithm ≠ alg.name then .panic
      else if ¬ MacSizeAllowed alg.outputSize r.macSize then .err .FormErr
      else if ¬ MsgOk m then .panic
      else verdictOut (verdict alg.outputSize
        (hm alg key (digestInput mode m r.originalId.toNat sv pm)) r.mac now.toUnix sv.timeSigned sv.fudge) :=
  verifyMode_eq hm mode r m pm alg key now sv hv h

/-- `r.mac.length = r.macSize` holds for every record a `Reader` hands out (`validate_as_tsig`
    checked `algorithm_len + mac_size + other_len + 16 = rdlength`) -/
theorem C11_mac_length_of_valid (r : ReadTsigRr) (h : r.algoLen + r.macSize + 16 ≤ r.rdata.length) :
    r.mac.length = r.macSize := mac_length_of_valid r h

section
variable (mode : Mode) (r : ReadTsigRr) (m pm : Octets) (alg : Algorithm) (key : Octets) (now : TimeSigned)
  (sv : Spec.Tsig.Vars) (hv : r.mac.length = r.macSize) (habs : Abstracts r.vars sv)
  (hpre : verifyAsserts mode pm ∧ r.algorithm = alg.name ∧ MsgOk m)
include hv habs hpre

/-- **Verification accepts exactly** the messages whose MAC has an allowed size, equals the RFC
    computation truncated to that size, and whose time lies within the fudge window. -/
theorem C11_verify_ok_iff :
    verifyMode hm mode r m pm alg key now = .ok () ↔
      MacSizeAllowed alg.outputSize r.macSize ∧
      (hm alg key (digestInput mode m r.originalId.toNat sv pm)).take r.macSize = r.mac ∧
      TimeOk now.toUnix sv.timeSigned sv.fudge := by
  obtain ⟨h1, h2, h3⟩ := hpre
  rw [C11_verify_decision hm mode r m pm alg key now sv hv habs]
  have e0 : ¬ (¬ verifyAsserts mode pm ∨ r.algorithm ≠ alg.name) := by
    intro h; rcases h with h | h; exact h h1; exact h h2
  rw [if_neg e0]
  unfold verdict
  rw [hv]
  by_cases hs : MacSizeAllowed alg.outputSize r.macSize
  · rw [if_neg (fun h => h hs), if_neg (fun h => h h3), if_neg (fun h => h hs)]
    by_cases hmac : List.take r.macSize (hm alg key (digestInput mode m r.originalId.toNat sv pm)) = r.mac
    · rw [if_neg (fun h => h hmac)]
      by_cases ht : TimeOk now.toUnix sv.timeSigned sv.fudge
      · rw [if_neg (fun h => h ht)]; simp [verdictOut, hs, hmac, ht]
      · rw [if_pos ht]; simp [verdictOut, ht]
    · rw [if_pos hmac]; simp [verdictOut, hmac]
  · rw [if_pos hs]; simp [hs]

/-- FORMERR exactly for a MAC size outside `max(10, ⌈out/2⌉) ≤ size ≤ out` — before anything else -/
theorem C11_verify_formerr_iff :
    verifyMode hm mode r m pm alg key now = .err .FormErr ↔ ¬ MacSizeAllowed alg.outputSize r.macSize := by
  obtain ⟨h1, h2, h3⟩ := hpre
  rw [C11_verify_decision hm mode r m pm alg key now sv hv habs]
  have e0 : ¬ (¬ verifyAsserts mode pm ∨ r.algorithm ≠ alg.name) := by
    intro h; rcases h with h | h; exact h h1; exact h h2
  rw [if_neg e0]
  unfold verdict
  rw [hv]
  by_cases hs : MacSizeAllowed alg.outputSize r.macSize
  · rw [if_neg (fun h => h hs), if_neg (fun h => h h3), if_neg (fun h => h hs)]
    by_cases hmac : List.take r.macSize (hm alg key (digestInput mode m r.originalId.toNat sv pm)) = r.mac
    · rw [if_neg (fun h => h hmac)]
      by_cases ht : TimeOk now.toUnix sv.timeSigned sv.fudge
      · rw [if_neg (fun h => h ht)]; simp [verdictOut, hs]
      · rw [if_pos ht]; simp [verdictOut, hs]
    · rw [if_pos hmac]; simp [verdictOut, hs]
  · rw [if_pos hs]; simp [hs]

/-- BADSIG exactly for an allowed size with a wrong MAC — whatever the time -/
theorem C11_verify_badsig_iff :
    verifyMode hm mode r m pm alg key now = .err .BadSig ↔
      MacSizeAllowed alg.outputSize r.macSize ∧
      (hm alg key (digestInput mode m r.originalId.toNat sv pm)).take r.macSize ≠ r.mac := by
  obtain ⟨h1, h2, h3⟩ := hpre
  rw [C11_verify_decision hm mode r m pm alg key now sv hv habs]
  have e0 : ¬ (¬ verifyAsserts mode pm ∨ r.algorithm ≠ alg.name) := by
    intro h; rcases h with h | h; exact h h1; exact h h2
  rw [if_neg e0]
  unfold verdict
  rw [hv]
  by_cases hs : MacSizeAllowed alg.outputSize r.macSize
  · rw [if_neg (fun h => h hs), if_neg (fun h => h h3), if_neg (fun h => h hs)]
    by_cases hmac : List.take r.macSize (hm alg key (digestInput mode m r.originalId.toNat sv pm)) = r.mac
    · rw [if_neg (fun h => h hmac)]
      by_cases ht : TimeOk now.toUnix sv.timeSigned sv.fudge
      · rw [if_neg (fun h => h ht)]; simp [verdictOut, hmac]
      · rw [if_pos ht]; simp [verdictOut, hmac]
    · rw [if_pos hmac]; simp [verdictOut, hs, hmac]
  · rw [if_pos hs]; simp [hs]

/-- BADTIME exactly for an allowed size, the right MAC, and a time outside the window: the time is
    looked at only after the MAC has been validated (RFC 8945 §5.2.3) -/
theorem C11_verify_badtime_iff :
    verifyMode hm mode r m pm alg key now = .err .BadTime ↔
      MacSizeAllowed alg.outputSize r.macSize ∧
      (hm alg key (digestInput mode m r.originalId.toNat sv pm)).take r.macSize = r.mac ∧
      ¬ TimeOk now.toUnix sv.timeSigned sv.fudge := by
  obtain ⟨h1, h2, h3⟩ := hpre
  rw [C11_verify_decision hm mode r m pm alg key now sv hv habs]
  have e0 : ¬ (¬ verifyAsserts mode pm ∨ r.algorithm ≠ alg.name) := by
    intro h; rcases h with h | h; exact h h1; exact h h2
  rw [if_neg e0]
  unfold verdict
  rw [hv]
  by_cases hs : MacSizeAllowed alg.outputSize r.macSize
  · rw [if_neg (fun h => h hs), if_neg (fun h => h h3), if_neg (fun h => h hs)]
    by_cases hmac : List.take r.macSize (hm alg key (digestInput mode m r.originalId.toNat sv pm)) = r.mac
    · rw [if_neg (fun h => h hmac)]
      by_cases ht : TimeOk now.toUnix sv.timeSigned sv.fudge
      · rw [if_neg (fun h => h ht)]; simp [verdictOut, ht]
      · rw [if_pos ht]; simp [verdictOut, hs, hmac, ht]
    · rw [if_pos hmac]; simp [verdictOut, hmac]
  · rw [if_pos hs]; simp [hs]

end

/-- **When the code panics.**  `verify_*` panics exactly when an assert fails, or — after the size
    check has passed — the message has no full header or ARCOUNT = 0. -/
theorem C11_verify_panic_iff (mode : Mode) (r : ReadTsigRr) (m pm : Octets) (alg : Algorithm) (key : Octets)
    (now : TimeSigned) (sv : Spec.Tsig.Vars) (hv : r.mac.length = r.macSize) (habs : Abstracts r.vars sv) :
    verifyMode hm mode r m pm alg key now = .panic ↔
      ¬ verifyAsserts mode pm ∨ r.algorithm ≠ alg.name ∨
      (MacSizeAllowed alg.outputSize r.macSize ∧ ¬ MsgOk m) := by
  rw [C11_verify_decision hm mode r m pm alg key now sv hv habs]
  by_cases h0 : ¬ verifyAsserts mode pm ∨ r.algorithm ≠ alg.name
  · rw [if_pos h0]
    constructor
    · intro _; rcases h0 with h | h; exact Or.inl h; exact Or.inr (Or.inl h)
    · intro _; rfl
  · rw [if_neg h0]
    have h1 : ¬ ¬ verifyAsserts mode pm := fun h => h0 (Or.inl h)
    have h2 : ¬ r.algorithm ≠ alg.name := fun h => h0 (Or.inr h)
    by_cases hs : MacSizeAllowed alg.outputSize r.macSize
    · rw [if_neg (fun h => h hs)]
      by_cases hm' : MsgOk m
      · rw [if_neg (fun h => h hm')]
        constructor
        · intro h
          exfalso
          generalize verdict alg.outputSize _ r.mac now.toUnix sv.timeSigned sv.fudge = vd at h
          cases vd <;> cases h
        · intro h; rcases h with h | h | h
          · exact absurd h h1
          · exact absurd h h2
          · exact absurd hm' h.2
      · rw [if_pos hm']
        constructor
        · intro _; exact Or.inr (Or.inr ⟨hs, hm'⟩)
        · intro _; rfl
    · rw [if_pos hs]
      constructor
      · intro h; cases h
      · intro h; rcases h with h | h | h
        · exact absurd h h1
        · exact absurd h h2
        · exact absurd h.1 hs

/-- `sign_*` panics exactly outside its documented preconditions (for MAC functions with tags of
    ordinary length) -/
theorem C11_sign_panic_iff {ε} (mode : Mode) (p : PreparedTsigRr) (m pm : Octets) (alg : Algorithm) (key : Octets)
    (sv : Spec.Tsig.Vars) (h : Abstracts (p.vars alg.name) sv)
    (hlen : (hm alg key (digestInput mode m p.originalId.toNat sv pm)).length ≤ 65000) :
    signMode (ε := ε) hm mode p m pm alg key = .panic ↔ ¬ (signAsserts mode pm ∧ MsgOk m) := by
  rw [C11_sign_eq_rfc hm mode p m pm alg key sv h hlen]
  by_cases hc : signAsserts mode pm ∧ MsgOk m
  · rw [if_pos hc]; constructor
    · intro h; cases h
    · intro h; exact absurd hc h
  · rw [if_neg hc]; exact ⟨fun _ => hc, fun _ => rfl⟩

/-! ## 3. What is signed verifies -/

/-- **`verify (sign m) = ok` inside the window.**  Take what `sign_*` returned, put the RDATA into a
    TSIG RR (type TSIG, class ANY, TTL 0) whose owner is the key name in *any* letter case, let a
    reader turn it into a `ReadTsigRr`, and verify — the same message, or the message with other ID
    octets (`m'`: a forwarder may have changed the ID; the original ID is in the RR) — with the same
    key and prior MAC at any time `now` with `|now − time signed| ≤ fudge`: the result is `Ok`.
    `hOut`: the MAC function returns tags of the algorithm's output size. -/
theorem C11_verify_sign (mode : Mode) (p : PreparedTsigRr) (m m' pm : Octets) (alg : Algorithm) (key : Octets)
    (now : TimeSigned) (owner rdata mac : Octets)
    (hOut : ∀ d, (hm alg key d).length = alg.outputSize)
    (hown : lowerName owner = p.keyName)
    (hid : m'.drop 2 = m.drop 2)
    (hsign : signMode (ε := VerificationError) hm mode p m pm alg key = .ok (rdata, mac))
    (htime : TimeOk now.toUnix p.timeSigned.toUnix p.fudge.toNat) :
    ∃ r, ReadTsigRr.tryFrom owner Gen.TYPE_TSIG Gen.QCLASS_ANY 0 rdata = .ok r ∧
      verifyMode hm mode r m' pm alg key now = .ok () := by
  obtain ⟨ha, d, hd, hmac, hrd⟩ := signMode_ok hm mode p m pm alg key rdata mac hsign
  have hml : mac.length = alg.outputSize := by rw [hmac]; exact hOut d
  have hsmall : mac.length < 65536 := by
    rcases outputSize_cases alg with h | h <;> omega
  refine ⟨readOf (lowerName owner) alg.name p.timeSigned p.fudge mac p.originalId p.error p.other, ?_, ?_⟩
  · rw [hrd]; exact tryFrom_serialized owner alg p.timeSigned p.fudge mac p.originalId p.error p.other hsmall
  · rw [verifyMode_def]
    have hva : verifyAsserts mode pm := by
      cases mode
      · trivial
      · exact ha
      · trivial
    rw [if_neg (fun h => h hva), readOf_originalId, readOf_vars, hown, inputMode_congr mode m m' pm _ _ hid]
    have hv : (p.vars alg.name) = ⟨p.keyName, alg.name, p.timeSigned, p.fudge, p.error, p.other⟩ := rfl
    rw [← hv, hd]
    rw [verificationCore_ok_input hm _ d alg key now rfl (by rw [readOf_mac]; rfl)]
    rw [readOf_mac, readOf_timeSigned, readOf_fudge]
    unfold verdict
    have hs : MacSizeAllowed alg.outputSize mac.length := by rw [hml]; exact macSizeAllowed_full alg
    have ht : List.take mac.length (hm alg key d) = mac := by rw [hmac]; simp
    rw [if_neg (fun h => h hs), if_neg (fun h => h ht), if_neg (fun h => h htime)]
    rfl

/-! ## 4. Tampering -/

/-- The two ID octets of the message are *not* covered (RFC 8945 §4.3.2: the ID is replaced by the
    original ID of the TSIG RR): messages that differ only there have the same MAC input. -/
theorem C11_id_octets_not_covered {ε} (mode : Mode) (m m' pm : Octets) (id : UInt16) (v : Variables)
    (h : m'.drop 2 = m.drop 2) : inputMode (ε := ε) mode m' pm id v = inputMode mode m pm id v :=
  inputMode_congr mode m m' pm id v h

/-- **Everything else is covered: the MAC input is uniquely readable.**  If two tuples (message,
    original ID, prior MAC, variables) have the same MAC input, then they agree on the original ID,
    on every octet of the message after the ID, on the prior MAC (response, subsequent), on all TSIG
    variables (request, response) resp. on the timers (subsequent) — provided
      * `Framed m m'`: the messages have the same length, or neither body is a proper prefix of the
        other (see `C11_request_digest_ambiguous` for why something of the kind is needed);
      * the prior MACs fit the 16-bit size field; key and algorithm names are wire-format names. -/
theorem C11_digest_injective {ε} (mode : Mode) (m m' pm pm' : Octets) (id id' : UInt16) (v v' : Variables)
    (D : Octets)
    (h : inputMode (ε := ε) mode m pm id v = .ok D) (h' : inputMode (ε := ε) mode m' pm' id' v' = .ok D)
    (hf : Framed m m')
    (hpm : mode ≠ .request → pm.length ≤ 65535 ∧ pm'.length ≤ 65535)
    (hn : mode ≠ .subsequent →
      WireName v.keyName ∧ WireName v'.keyName ∧ WireName v.algorithm ∧ WireName v'.algorithm) :
    id = id' ∧ m.drop 2 = m'.drop 2 ∧ (mode ≠ .request → pm = pm') ∧ (mode ≠ .subsequent → v = v') ∧
      v.timeSigned = v'.timeSigned ∧ v.fudge = v'.fudge :=
  inputMode_inj mode m m' pm pm' id id' v v' D h h' hf hpm hn

/-- **Changing any covered octet of the message changes the MAC input**: every position `i ≥ 2`
    (flags, the four counts — ARCOUNT included — and the whole body), in every mode, whatever the other
    inputs are.  (No hypothesis on names or MAC lengths is needed: they are the same on both sides.) -/
theorem C11_covered_octet_changes_digest {ε} (mode : Mode) (m pm : Octets) (id : UInt16) (v : Variables)
    (D : Octets) (i : Nat) (b : UInt8) (hi : 2 ≤ i) (hlt : i < m.length) (hb : m[i] ≠ b)
    (h : inputMode (ε := ε) mode m pm id v = .ok D) :
    inputMode (ε := ε) mode (m.set i b) pm id v ≠ .ok D := by
  intro h'
  have key : ∀ (x : Octets) (d d' : Octets),
      addModifiedMessage (ε := ε) m id = .ok d → addModifiedMessage (ε := ε) (m.set i b) id = .ok d' →
      d ++ x = d' ++ x → False := by
    intro x d d' hd hd' he
    obtain ⟨_, e2, _⟩ := addModifiedMessage_inj m (m.set i b) id id d d' x x hd hd' (by simp) he
    have := congrArg (fun l => l[i - 2]?) e2
    simp only [List.getElem?_drop] at this
    have hi2 : 2 + (i - 2) = i := by omega
    rw [hi2, List.getElem?_eq_getElem hlt, List.getElem?_set_self (by simpa using hlt)] at this
    exact hb (Option.some.inj this)
  cases mode
  · simp only [inputMode, requestInput] at h h'
    obtain ⟨d, hd, e⟩ := bind_ok_inv _ _ _ h
    obtain ⟨d', hd', e'⟩ := bind_ok_inv _ _ _ h'
    exact key _ d d' hd hd' ((Out.ok.inj e).trans (Out.ok.inj e').symm)
  · simp only [inputMode, responseInput] at h h'
    obtain ⟨d, hd, e⟩ := bind_ok_inv _ _ _ h
    obtain ⟨d', hd', e'⟩ := bind_ok_inv _ _ _ h'
    have he := (Out.ok.inj e).trans (Out.ok.inj e').symm
    simp only [List.append_assoc] at he
    exact key _ d d' hd hd' (List.append_cancel_left he)
  · simp only [inputMode, subsequentInput] at h h'
    obtain ⟨d, hd, e⟩ := bind_ok_inv _ _ _ h
    obtain ⟨d', hd', e'⟩ := bind_ok_inv _ _ _ h'
    have he := (Out.ok.inj e).trans (Out.ok.inj e').symm
    simp only [List.append_assoc] at he
    exact key _ d d' hd hd' (List.append_cancel_left he)

/-- **Changing any covered TSIG variable, the original ID or the prior MAC changes the MAC input**
    (same message): key name, algorithm name, time signed, fudge, error, other data in request and
    response mode; time signed and fudge in subsequent mode. -/
theorem C11_covered_variable_changes_digest {ε} (mode : Mode) (m pm pm' : Octets) (id id' : UInt16)
    (v v' : Variables) (D : Octets)
    (hpm : mode ≠ .request → pm.length ≤ 65535 ∧ pm'.length ≤ 65535)
    (hn : mode ≠ .subsequent →
      WireName v.keyName ∧ WireName v'.keyName ∧ WireName v.algorithm ∧ WireName v'.algorithm)
    (hdiff : id ≠ id' ∨ (mode ≠ .request ∧ pm ≠ pm') ∨ (mode ≠ .subsequent ∧ v ≠ v') ∨
      v.timeSigned ≠ v'.timeSigned ∨ v.fudge ≠ v'.fudge)
    (h : inputMode (ε := ε) mode m pm id v = .ok D) :
    inputMode (ε := ε) mode m pm' id' v' ≠ .ok D := by
  intro h'
  obtain ⟨e1, _, e3, e4, e5, e6⟩ := inputMode_inj mode m m pm pm' id id' v v' D h h' (Or.inl rfl) hpm hn
  rcases hdiff with hd | ⟨hd1, hd2⟩ | ⟨hd1, hd2⟩ | hd | hd
  · exact hd e1
  · exact hd2 (e3 hd1)
  · exact hd2 (e4 hd1)
  · exact hd e5
  · exact hd e6

/-- **Hence tampering is detected unless the MAC collides.**  A signer signed `(m, p, pm)`; a
    verifier is given a message `m'`, a record `r'` and a prior MAC `pm'` that differ from what was
    signed in some covered item, with a MAC that is the signer's tag or a prefix of it (all an
    attacker without the key has).  If `verify_*` says `Ok`, then the MAC function has produced the
    same first `mac_size ≥ 10` octets on two *different* inputs — an explicit collision of the
    truncated MAC, which HMAC is assumed not to yield. -/
theorem C11_tamper_needs_collision (mode : Mode) (p : PreparedTsigRr) (m pm : Octets) (alg : Algorithm)
    (key rdata mac : Octets) (r' : ReadTsigRr) (m' pm' : Octets) (now : TimeSigned)
    (hsign : signMode (ε := VerificationError) hm mode p m pm alg key = .ok (rdata, mac))
    (hv : r'.mac.length = r'.macSize)
    (hreuse : r'.mac = mac.take r'.macSize)
    (hver : verifyMode hm mode r' m' pm' alg key now = .ok ())
    (hf : Framed m m')
    (hpm : mode ≠ .request → pm'.length ≤ 65535)
    (hn : mode ≠ .subsequent → WireName p.keyName ∧ WireName r'.keyName ∧ WireName r'.algorithm)
    (hdiff : p.originalId ≠ r'.originalId ∨ m.drop 2 ≠ m'.drop 2 ∨ (mode ≠ .request ∧ pm ≠ pm') ∨
      (mode ≠ .subsequent ∧ p.vars alg.name ≠ r'.vars) ∨
      p.timeSigned ≠ r'.timeSigned ∨ p.fudge ≠ r'.fudge) :
    ∃ D D', D ≠ D' ∧ 10 ≤ r'.macSize ∧
      inputMode (ε := VerificationError) mode m pm p.originalId (p.vars alg.name) = .ok D ∧
      inputMode (ε := VerificationError) mode m' pm' r'.originalId r'.vars = .ok D' ∧
      (hm alg key D).take r'.macSize = (hm alg key D').take r'.macSize := by
  obtain ⟨ha, D, hD, hmac, _⟩ := signMode_ok hm mode p m pm alg key rdata mac hsign
  obtain ⟨_, halg, hs, D', hD', hm', _⟩ := verifyMode_ok hm mode r' m' pm' alg key now hv hver
  refine ⟨D, D', ?_, hs.2.1, hD, hD', ?_⟩
  · intro e
    subst e
    have hpm2 : mode ≠ .request → pm.length ≤ 65535 ∧ pm'.length ≤ 65535 := by
      intro hne
      refine ⟨?_, hpm hne⟩
      cases mode
      · exact absurd rfl hne
      · exact ha
      · exact ha
    have hn2 : mode ≠ .subsequent →
        WireName (p.vars alg.name).keyName ∧ WireName r'.vars.keyName ∧
        WireName (p.vars alg.name).algorithm ∧ WireName r'.vars.algorithm := by
      intro hne
      obtain ⟨n1, n2, n3⟩ := hn hne
      exact ⟨n1, n2, by show WireName alg.name; rw [← halg]; exact n3, n3⟩
    obtain ⟨e1, e2, e3, e4, e5, e6⟩ :=
      inputMode_inj mode m m' pm pm' p.originalId r'.originalId (p.vars alg.name) r'.vars D hD hD' hf hpm2 hn2
    rcases hdiff with hd | hd | ⟨hd1, hd2⟩ | ⟨hd1, hd2⟩ | hd | hd
    · exact hd e1
    · exact hd e2
    · exact hd2 (e3 hd1)
    · exact hd2 (e4 hd1)
    · exact hd e5
    · exact hd e6
  · rw [hm', hreuse, hmac]

/-- **Why a framing hypothesis is needed (a property of RFC 8945's construction, which the code
    follows).**  Nothing separates the message from the key name in the MAC input, so two different
    (message, key name) pairs can have the same input: the message `… ‖ 01 61` under key `key.` and
    the message `…` under key `a.key.`.  The first "message" has two stray octets after its last
    counted record, so it is not a well-formed DNS message; the server never hands such a buffer to
    `verify_request` (it passes the octets up to the TSIG RR it has just parsed), and the two key names
    would have to share one secret. -/
theorem C11_request_digest_ambiguous :
    ∃ (m m' : Octets) (id : UInt16) (v v' : Variables),
      m ≠ m' ∧ v ≠ v' ∧ WireName v.keyName ∧ WireName v'.keyName ∧ v.algorithm = v'.algorithm ∧
      (∃ D, requestInput (ε := Unit) m id v = .ok D ∧ requestInput (ε := Unit) m' id v' = .ok D) := by
  let hdr : Octets := [0, 1, 0, 0, 0, 0, 0, 0, 0, 0, 0, 1]
  let t : TimeSigned := ⟨0, 0, 0, 0, 0, 0⟩
  refine ⟨hdr ++ [1, 97], hdr, 7, ⟨[3, 107, 101, 121, 0], hmacSha256Name, t, 300, 0, []⟩,
    ⟨[1, 97, 3, 107, 101, 121, 0], hmacSha256Name, t, 300, 0, []⟩, by decide, by decide, ?_, ?_, rfl, ?_⟩
  · exact WireName.label 3 [107, 101, 121] [0] (by decide) rfl WireName.root
  · exact WireName.label 1 [97] _ (by decide) rfl (WireName.label 3 [107, 101, 121] [0] (by decide) rfl WireName.root)
  · exact ⟨[0, 7, 0, 0, 0, 0, 0, 0, 0, 0, 0, 0, 1, 97, 3, 107, 101, 121, 0, 0, 255, 0, 0, 0, 0,
        11, 104, 109, 97, 99, 45, 115, 104, 97, 50, 53, 54, 0, 0, 0, 0, 0, 0, 0, 1, 44, 0, 0, 0, 0],
      by decide +kernel, by decide +kernel⟩

/-- `verify_subsequent` does not assert that the prior MAC fits the 16-bit size field (its
    documentation says it may panic; it silently wraps instead): prior MACs whose lengths differ by
    65536 and that agree … cannot collide here, but the *length prefix* does — the digest input of a
    65536-octet prior MAC starts with `00 00` like that of an empty one. -/
theorem C11_verify_subsequent_prior_mac_wraps (pm : Octets) (h : pm.length = 65536) :
    (addPriorMac pm).take 2 = addPriorMac [] := by
  unfold addPriorMac
  rw [h]; rfl

/-! ## non-vacuity: concrete instances of the hypotheses used above -/

/-- a 12-octet header with ARCOUNT = 1 satisfies the precondition -/
example : MsgOk [0, 1, 0, 0, 0, 0, 0, 0, 0, 0, 0, 1] := by decide

/-- `Abstracts` holds for the variables of a concrete `PreparedTsigRr` with key `key.` and SHA-256 -/
example : Abstracts
    ((⟨[3, 107, 101, 121, 0], ⟨0, 0, 0x5f, 0x5e, 0x10, 0⟩, 300, 1, 0, ⟨0, 0, 0, 0, 0, 0⟩⟩ : PreparedTsigRr).vars
      (Algorithm.name .HmacSha256))
    { keyName := [[107, 101, 121]], algName := [[104, 109, 97, 99, 45, 115, 104, 97, 50, 53, 54]],
      timeSigned := 1600000000, fudge := 300, error := 0, other := [] } :=
  ⟨by decide, by decide, rfl, rfl, by decide, by decide, by decide, by decide⟩

/-- the algorithm names are wire names -/
example : WireName (Algorithm.name .HmacSha256) :=
  WireName.label 11 [104, 109, 97, 99, 45, 115, 104, 97, 50, 53, 54] [0] (by decide) rfl WireName.root

/-- messages of equal length are framed; so are a message and itself with one octet changed -/
example (m : Octets) (i : Nat) (b : UInt8) : Framed m (m.set i b) := Or.inl (by simp)

/-- a MAC function with tags of the right size exists (constant tags), so `hOut` is satisfiable;
    sizes 20 and 32 are allowed, 9 and 33 are not, 16 only for SHA-256 -/
example : ∀ alg : Algorithm, ∀ d : Octets,
    ((fun (a : Algorithm) (_ _ : Octets) => List.replicate a.outputSize (0 : UInt8)) alg [] d).length = alg.outputSize := by
  intro alg d; simp

example : MacSizeAllowed 20 10 ∧ MacSizeAllowed 32 16 ∧ ¬ MacSizeAllowed 32 15 ∧ ¬ MacSizeAllowed 20 9 ∧
    ¬ MacSizeAllowed 32 33 ∧ MacSizeAllowed 20 20 := by decide

/-- the time window is inclusive at both ends -/
example : TimeOk 1300 1000 300 ∧ TimeOk 700 1000 300 ∧ ¬ TimeOk 1301 1000 300 ∧ ¬ TimeOk 699 1000 300 ∧
    TimeOk 0 100 300 := by decide

/-- **Tampering is detected** — the contrapositive of `C11_tamper_needs_collision`: if the MAC
    function does not give the two (different) MAC inputs at hand the same first `mac_size` octets,
    `verify_*` does not return `Ok` on a message / record / prior MAC that differs in a covered item
    from what was signed.  (`hnc` speaks about these two inputs only; it is what HMAC's security
    gives with overwhelming probability, and it is not assumed for *all* pairs — no function with
    fixed-size tags could satisfy that.) -/
theorem C11_tamper_detected (mode : Mode) (p : PreparedTsigRr) (m pm : Octets) (alg : Algorithm)
    (key rdata mac : Octets) (r' : ReadTsigRr) (m' pm' : Octets) (now : TimeSigned)
    (hsign : signMode (ε := VerificationError) hm mode p m pm alg key = .ok (rdata, mac))
    (hv : r'.mac.length = r'.macSize)
    (hreuse : r'.mac = mac.take r'.macSize)
    (hf : Framed m m')
    (hpm : mode ≠ .request → pm'.length ≤ 65535)
    (hn : mode ≠ .subsequent → WireName p.keyName ∧ WireName r'.keyName ∧ WireName r'.algorithm)
    (hdiff : p.originalId ≠ r'.originalId ∨ m.drop 2 ≠ m'.drop 2 ∨ (mode ≠ .request ∧ pm ≠ pm') ∨
      (mode ≠ .subsequent ∧ p.vars alg.name ≠ r'.vars) ∨
      p.timeSigned ≠ r'.timeSigned ∨ p.fudge ≠ r'.fudge)
    (hnc : ∀ D D', D ≠ D' →
      inputMode (ε := VerificationError) mode m pm p.originalId (p.vars alg.name) = .ok D →
      inputMode (ε := VerificationError) mode m' pm' r'.originalId r'.vars = .ok D' →
      (hm alg key D).take r'.macSize ≠ (hm alg key D').take r'.macSize) :
    verifyMode hm mode r' m' pm' alg key now ≠ .ok () := by
  intro hver
  obtain ⟨D, D', hne, _, hD, hD', hc⟩ :=
    C11_tamper_needs_collision hm mode p m pm alg key rdata mac r' m' pm' now hsign hv hreuse hver hf hpm hn hdiff
  exact hnc D D' hne hD hD' hc

/-! ### a complete concrete instance (non-vacuity of §3 and §4) -/

/-- toy MAC function: constant tags of the right size — every two inputs collide -/
def constMac : Algorithm → Octets → Octets → Octets := fun a _ _ => List.replicate a.outputSize 0

def exMsg : Octets := [0, 1, 0, 0, 0, 0, 0, 0, 0, 0, 0, 1]
def exP : PreparedTsigRr := ⟨[3, 107, 101, 121, 0], ⟨0, 0, 0x5f, 0x5e, 0x10, 0⟩, 300, 1, 0, ⟨0, 0, 0, 0, 0, 0⟩⟩
def exRdata : Octets :=
  [9, 104, 109, 97, 99, 45, 115, 104, 97, 49, 0, 0, 0, 95, 94, 16, 0, 1, 44, 0, 20, 0, 0, 0, 0, 0, 0, 0, 0, 0, 0, 0, 0,
   0, 0, 0, 0, 0, 0, 0, 0, 0, 1, 0, 0, 0, 0]
def exMac : Octets := List.replicate 20 0

theorem C11_example_sign : signMode (ε := VerificationError) constMac .request exP exMsg [] .HmacSha1 [1] = .ok (exRdata, exMac) := by
  decide +kernel

/-- the hypotheses of `C11_verify_sign` hold for the toy instance (owner in upper case, message with
    another ID, `now` at the far end of the window) … -/
example : ∃ r, ReadTsigRr.tryFrom [3, 75, 69, 89, 0] Gen.TYPE_TSIG Gen.QCLASS_ANY 0 exRdata = .ok r ∧
    verifyMode constMac .request r [0xab, 0xcd, 0, 0, 0, 0, 0, 0, 0, 0, 0, 1] [] .HmacSha1 [1]
      ⟨0, 0, 0x5f, 0x5e, 0x11, 0x2c⟩ = .ok () :=
  C11_verify_sign constMac .request exP exMsg _ [] .HmacSha1 [1] _ [3, 75, 69, 89, 0] exRdata exMac
    (fun _ => by simp [constMac]) (by decide) (by decide) C11_example_sign (by decide)

/-- … and those of `C11_tamper_needs_collision`: with the colliding toy MAC a message with changed
    flags *is* accepted, and the theorem exhibits the collision. -/
example : ∃ D D', D ≠ D' ∧ (constMac .HmacSha1 [1] D).take 20 = (constMac .HmacSha1 [1] D').take 20 := by
  have h := C11_tamper_needs_collision constMac .request exP exMsg [] .HmacSha1 [1] exRdata exMac
    (readOf exP.keyName (Algorithm.name .HmacSha1) exP.timeSigned exP.fudge exMac exP.originalId exP.error exP.other)
    [0, 1, 0x80, 0, 0, 0, 0, 0, 0, 0, 0, 1] [] ⟨0, 0, 0x5f, 0x5e, 0x10, 0⟩ C11_example_sign
    (by decide +kernel) (by decide +kernel) (by decide +kernel) (Or.inl rfl) (fun h => absurd rfl h)
    (fun _ => ⟨WireName.label 3 [107, 101, 121] [0] (by decide) rfl WireName.root,
               WireName.label 3 [107, 101, 121] [0] (by decide) rfl WireName.root,
               WireName.label 9 [104, 109, 97, 99, 45, 115, 104, 97, 49] [0] (by decide) rfl WireName.root⟩)
    (Or.inr (Or.inl (by decide)))
  obtain ⟨D, D', hne, _, _, _, hc⟩ := h
  exact ⟨D, D', hne, hc⟩


end QV.C11
