/-
  C25 — $INCLUDE behaves like textual inclusion with origin scoping.

  "Parsing a zone file from the file system yields the same records as parsing the equivalent
   file with each $INCLUDE replaced by the included file's contents, where the included file
   starts with the includer's context (or the directive's origin) and the includer's origin is
   restored afterwards. Relative include paths resolve against the including file's directory,
   and nesting deeper than the configured limit is an error."

  Model: `QV.Model.Include` (the include stack of `fs::Parser::next`).  Spec:
  `QV.Spec.Include.readFile` (recursive semantics, no stack).
-/
import QV.Proofs.Include

namespace QV.C25
open QV QV.ZF QV.Inc QV.Spec.Inc

/-!
  `runFs res B m` = everything `fs::Parser` yields when `next` is called until it returns `None`
  (`FsParser.next` and `runFs` are both built on `step`, one pass through the body of
  `fs::Parser::next`).  `res` = how an `$INCLUDE` path is resolved and opened from a given
  including file (`resolveFs fs` for a modelled file system); `B` = a number exceeding every
  openable file's size by 2 (only the *termination measure* of the machine's self-recursion
  depends on it; `fsBound fs` for a modelled file system).

  Spec: `readTree resolve maxDepth main content` — the recursive reading of a file tree
  (QV/Spec/Include.lean): an included file is read completely, starting from the includer's
  context with the origin replaced if the directive gives one; the includer continues with the
  included file's final context except for the origin, which is its own again; an `$INCLUDE` at
  depth ≥ maxDepth is the error `IncludesTooDeep`.
-/

/-- **Main theorem.** For every file tree, every resolver, every depth limit: the include-stack
    machine of `fs::Parser::next` yields exactly what the recursive semantics reports.
    Hypotheses: `B` bounds the file sizes (see above) and the resolver never hits the
    `.expect("including file's path has no parent")` panic (true whenever the main path has a
    parent: paths of opened files are `parent.join(x)`; `C25_path_examples`). Cyclic includes
    are covered: they are cut by the depth limit, in the machine and in the semantics alike. -/
theorem C25_machine_refines_spec (res : Resolver) (B D : Nat) (hB : 2 ≤ B)
    (hsize : ∀ a b p c, res a b = .opened p c → c.length + 2 ≤ B)
    (hnp : ∀ a b, res a b ≠ .noParent) (main : Path) (content : List UInt8) :
    runFs res B (FsParser.start main content D) =
      (readTree (resolveOf res) D main content).map conv := by
  have := runFs_refines res B D hB hsize hnp main 0 (Parser.new content) CtxWF_default 0 [] rfl
  unfold FsParser.start readTree
  rw [this]
  cases (readFile (resolveOf res) D main 0 (Parser.new content)).2 <;> simp [contRun]

/-- The machine's self-recursion (`return self.next()`) terminates — the measure decreases on
    every pass, `ModelStuck` is never reported — and it never panics. -/
theorem C25_total (res : Resolver) (B D : Nat) (hB : 2 ≤ B)
    (hsize : ∀ a b p c, res a b = .opened p c → c.length + 2 ≤ B)
    (hnp : ∀ a b, res a b ≠ .noParent) (main : Path) (content : List UInt8) :
    ∀ y ∈ runFs res B (FsParser.start main content D),
      y ≠ .panic ∧ ∀ f l, y ≠ .err f .ModelStuck l := by
  rw [C25_machine_refines_spec res B D hB hsize hnp]
  intro y hy
  obtain ⟨s, hs, rfl⟩ := List.mem_map.mp hy
  exact conv_clean (readFile_clean _ D main 0 _ CtxWF_default s hs)

/-- the bound `fsBound fs` is large enough for the modelled file system -/
theorem C25_fsBound (fs : FS) : 2 ≤ fsBound fs ∧
    ∀ a b p c, resolveFs fs a b = .opened p c → c.length + 2 ≤ fsBound fs := by
  have hmono : ∀ (l : FS) (a : Nat), a ≤ l.foldl (fun a e => max a e.2.length) a := by
    intro l
    induction l with
    | nil => intro a; simp
    | cons e l ih => intro a; simp only [List.foldl_cons]; exact Nat.le_trans (Nat.le_max_left _ _) (ih _)
  have hmem : ∀ (l : FS) (a : Nat) e, e ∈ l → e.2.length ≤ l.foldl (fun a e => max a e.2.length) a := by
    intro l
    induction l with
    | nil => intro a e he; simp at he
    | cons x l ih =>
      intro a e he
      simp only [List.foldl_cons]
      simp at he
      rcases he with rfl | he
      · exact Nat.le_trans (Nat.le_max_right _ _) (hmono l _)
      · exact ih _ e he
  refine ⟨by unfold fsBound; omega, ?_⟩
  intro a b p c h
  unfold resolveFs at h
  split at h
  · cases h
  · split at h
    · next content ho =>
      cases h
      unfold openFile at ho
      split at ho
      · cases ho
      · dsimp only at ho
        split at ho
        · split at ho
          · cases ho
          · split at ho
            · next e he =>
              cases ho
              have := hmem fs 0 e (List.mem_of_find?_eq_some he)
              unfold fsBound; omega
            · cases ho
        · cases ho
    · cases h

/-- **Depth limit.** At nesting depth `maxDepth` (or deeper) an `$INCLUDE` is an error and ends
    everything; with `maxDepth = 0` includes are disabled. -/
theorem C25_depth_limit {κ : Type} (resolve : κ → List UInt8 → Option (κ × List UInt8)) (D : Nat)
    (file : κ) (depth : Nat) (p p' : Parser) (line : Nat) (path : List UInt8)
    (origin : Option (List UInt8)) (hn : p.next = (some (.item (.incl line path origin)), p'))
    (hd : D ≤ depth) :
    readFile resolve D file depth p = ([.err file .IncludesTooDeep line], none) := by
  rw [readFile]; simp [hn, hd]

/-- the included file starts with the includer's context, or with the directive's origin -/
theorem C25_include_context (p : Parser) (content : List UInt8) (origin : Option (List UInt8)) :
    (p.newForInclude content origin).ctx =
      (match origin with
       | some o => { p.ctx with origin := some o }
       | none => p.ctx) ∧
    (p.newForInclude content origin).st = ⟨content, 1, false⟩ ∧
    (p.newForInclude content origin).error = false := by
  unfold Parser.newForInclude Parser.withContext
  cases origin <;> simp

/-- after the included file, the includer continues with the includee's final context, except
    for the origin, which is restored -/
theorem C25_origin_restored (p inc : Parser) :
    (p.updateContextFromInclude inc).ctx.origin = p.ctx.origin ∧
    (p.updateContextFromInclude inc).ctx.prevOwner = inc.ctx.prevOwner ∧
    (p.updateContextFromInclude inc).ctx.prevTtl = inc.ctx.prevTtl ∧
    (p.updateContextFromInclude inc).ctx.prevClass = inc.ctx.prevClass ∧
    (p.updateContextFromInclude inc).ctx.defaultTtl = inc.ctx.defaultTtl ∧
    (p.updateContextFromInclude inc).st = p.st := by
  simp [Parser.updateContextFromInclude]

/-- **Relative paths resolve against the including file's directory** (`compute_path` =
    `includer.parent().join(path)`), absolute paths stand for themselves — instances of the
    re-implemented `std::path` functions (their general behaviour is the environment's, compared
    with the real `std` by the correspondence group `include`). -/
theorem C25_path_examples :
    computePath "d/main.zone".toUTF8.toList "b.zone".toUTF8.toList = some "d/b.zone".toUTF8.toList ∧
    computePath "d/main.zone".toUTF8.toList "../b.zone".toUTF8.toList = some "d/../b.zone".toUTF8.toList ∧
    computePath "main.zone".toUTF8.toList "sub/b.zone".toUTF8.toList = some "sub/b.zone".toUTF8.toList ∧
    computePath "d/e/x.zone".toUTF8.toList "/abs/y".toUTF8.toList = some "/abs/y".toUTF8.toList ∧
    computePath "/".toUTF8.toList "x".toUTF8.toList = none := by
  decide +kernel

/-!
  ### What is not proved (gap)

  The property's literal wording — "the same records as parsing the equivalent file with each
  `$INCLUDE` replaced by the included file's contents" — is not stated as a Lean theorem.  Its
  precise content is the recursive semantics above (context in, context out, origin restored);
  deriving the *textual* form from it needs a compositionality theorem for the in-memory parser
  (parsing `a ++ b`, where `a` ends at a line end outside parentheses, equals parsing `a` and
  then `b` from `a`'s final context with shifted line numbers) plus `$ORIGIN` lines that emulate
  the origin scoping — side conditions: the included file ends with a newline, has balanced
  parentheses, and the includer's origin is set.  On every run the literal form is checked by the
  harness's flattening oracle instead (op `incflat`: the flattened single file is parsed by the
  real in-memory parser; the record lists must be equal).
-/

/-! ### non-vacuity: a concrete tree, run through machine and semantics -/

/-- `main.zone`: `$ORIGIN t.` / `$INCLUDE i.zone s.` / `a 5 IN A 1.2.3.4`;
    `i.zone`: `@ 7 IN A 9.9.9.9` -/
def exFs : FS :=
  [("main.zone".toUTF8.toList, "$ORIGIN t.\n$INCLUDE i.zone s.\na 5 IN A 1.2.3.4\n".toUTF8.toList),
   ("i.zone".toUTF8.toList, "@ 7 IN A 9.9.9.9\n".toUTF8.toList)]

/-- the included record is read under the directive's origin `s.`; afterwards the includer's
    origin `t.` is back, while TTL and class flow on from the included file -/
theorem exFs_run :
    runFs (resolveFs exFs) (fsBound exFs) (FsParser.start "main.zone".toUTF8.toList
        "$ORIGIN t.\n$INCLUDE i.zone s.\na IN A 1.2.3.4\n".toUTF8.toList 1) =
      [.record "i.zone".toUTF8.toList 1 ⟨[1, 115, 0], 7, 1, 1, [9, 9, 9, 9]⟩,
       .record "main.zone".toUTF8.toList 3 ⟨[1, 97, 1, 116, 0], 7, 1, 1, [1, 2, 3, 4]⟩] := by
  decide +kernel

/-- with depth limit 0 the same tree is an error at the `$INCLUDE` line -/
example :
    runFs (resolveFs exFs) (fsBound exFs) (FsParser.start "main.zone".toUTF8.toList
        "$ORIGIN t.\n$INCLUDE i.zone s.\na IN A 1.2.3.4\n".toUTF8.toList 0) =
      [.err "main.zone".toUTF8.toList .IncludesTooDeep 2] := by
  decide +kernel

example : ∀ a b, resolveFs exFs a b = .opened [] [] → True := fun _ _ _ => trivial

end QV.C25
