/-
  C25 — $INCLUDE behaves like textual inclusion with origin scoping.

  "Parsing a zone file from the file system yields the same records as parsing the equivalent
   file with each $INCLUDE replaced by the included file's contents, where the included file
   starts with the includer's context (or the directive's origin) and the includer's origin is
   restored afterwards. Relative include paths resolve against the including file's directory,
   and nesting deeper than the configured limit is an error."

  Model: `QV.Model.Include` (the include stack of `fs::Parser::next`).  Spec:
  `QV.Spec.Include.readFile` (recursive semantics, no stack).

  ══ REPORT ══

  PROVED (19 theorems; `_partial` = under the cut hypothesis below)
   * the include-stack machine of `fs::Parser::next` yields exactly what the recursive semantics
     `readTree` reports, for every file tree, resolver and depth limit, cyclic includes included
     (`C25_machine_refines_spec`); it terminates and never panics (`C25_total`, `C25_fsBound`);
   * the clauses of the property on the semantics: nesting deeper than the limit is the error
     `IncludesTooDeep` at the directive's line (`C25_depth_limit`); the included file starts with
     the includer's context, or the directive's origin (`C25_include_context`); the includer's
     origin is restored, TTL / class / owner flow on (`C25_origin_restored`); relative paths
     resolve against the including file's directory, absolute ones do not (`C25_path_examples`);
   * three invariances of the in-memory parser, each by a chain over every function of its
     model: compositionality at line ends (`C25_parse_append`, `C25_line_frame`,
     `C25_file_of_records`), independence of the line counter (`C25_line_shift`), reader outside
     parentheses after a complete reading (`C25_ends_outside_parens`);
   * from these the literal "textual inclusion": for file trees of any nesting, cut at their
     `$INCLUDE` lines, the records of the tree reading are the records of the flattened text —
     each `$INCLUDE` line replaced by the included file's content, the origin scoping emulated by
     `$ORIGIN` lines (`C25_origin_line`) — on the semantics (`C25_flatten_tree_partial`) and on
     the machine (`C25_flatten_machine_partial`); one-level special cases
     `C25_include_is_textual_partial`, `C25_flatten_one_partial`; `recsOfSY_tagged`.
  ORACLE-ONLY (checked on every run, not proved)
   * the flattening equation for trees that are NOT given cut at their `$INCLUDE` lines, and for
     trees whose reading ends in an error: op `incflat` — the harness flattens the tree itself
     and parses the single file with the real in-memory parser; the record lists must be equal;
   * the tie of the model to src/zone_file/fs: temp-dir file trees with sub-directories,
     relative and absolute paths, include origins, depth limits 0–5, runs of consecutive
     includes, missing files (ops of group `include`).
  RESTRICTIONS
   * `C25_flatten_*_partial`: the tree comes cut at its `$INCLUDE` lines into pieces each of which
     parses on its own and ends at a line end outside parentheses (`TreeOK`, checkable by
     evaluation); deriving the cut from the text alone needs stability of the parser under
     *replacing* a suffix of its input — the converse of the frame property, which is not its
     mirror image (counter-example: the text `(` + newline) and was not pursued;
   * `C25_machine_refines_spec`: `B` exceeds every openable file's size by 2 (termination
     measure only) and the resolver never meets `.expect("including file's path has no
     parent")` — true whenever the main path has a parent;
   * file system and `std::path` (`Path::parent`, `Path::join`, `File::open` on Unix) are
     modelled for regular files reached without symlinks; read errors (directories) are outside
     the model; the in-memory parser's iterator semantics is C23/C24's model.
  FINDINGS: none for this property.
-/
import QV.Proofs.Include
import QV.Proofs.ZoneFile.Compose
import QV.Proofs.Flatten

namespace QV.C25
open QV QV.ZF QV.Inc QV.Spec.Inc

/-!
  `runFs res B m` = everything `fs::Parser` yields when `next` is called until it returns `None`
  (`FsParser.next` and `runFs` are both built on `step`, one pass through the body of
  `fs::Parser::next`).  `res` = how an `$INCLUDE` path is resolved and opened from a given
  including file (`resolveFs fs` for a modelled file system); `B` = a number exceeding every
  openable file's size by 2 (only the *termination measure* of the machine's self-recursion
  depends on it; `fsBound fs` for a modelled file system).

  Spec: `readTree resolve maxDepth main content` — the recursive reading of a file tree
  (QV/Spec/Include.lean): an included file is read completely, starting from the includer's
  context with the origin replaced if the directive gives one; the includer continues with the
  included file's final context except for the origin, which is its own again; an `$INCLUDE` at
  depth ≥ maxDepth is the error `IncludesTooDeep`.
-/

/-- **Main theorem.** For every file tree, every resolver, every depth limit: the include-stack
    machine of `fs::Parser::next` yields exactly what the recursive semantics reports.
    Hypotheses: `B` bounds the file sizes (see above) and the resolver never hits the
    `.expect("including file's path has no parent")` panic (true whenever the main path has a
    parent: paths of opened files are `parent.join(x)`; `C25_path_examples`). Cyclic includes
    are covered: they are cut by the depth limit, in the machine and in the semantics alike. -/
theorem C25_machine_refines_spec (res : Resolver) (B D : Nat) (hB : 2 ≤ B)
    (hsize : ∀ a b p c, res a b = .opened p c → c.length + 2 ≤ B)
    (hnp : ∀ a b, res a b ≠ .noParent) (main : Path) (content : List UInt8) :
    runFs res B (FsParser.start main content D) =
      (readTree (resolveOf res) D main content).map conv := by
  have := runFs_refines res B D hB hsize hnp main 0 (Parser.new content) CtxWF_default 0 [] rfl
  unfold FsParser.start readTree
  rw [this]
  cases (readFile (resolveOf res) D main 0 (Parser.new content)).2 <;> simp [contRun]

/-- The machine's self-recursion (`return self.next()`) terminates — the measure decreases on
    every pass, `ModelStuck` is never reported — and it never panics. -/
theorem C25_total (res : Resolver) (B D : Nat) (hB : 2 ≤ B)
    (hsize : ∀ a b p c, res a b = .opened p c → c.length + 2 ≤ B)
    (hnp : ∀ a b, res a b ≠ .noParent) (main : Path) (content : List UInt8) :
    ∀ y ∈ runFs res B (FsParser.start main content D),
      y ≠ .panic ∧ ∀ f l, y ≠ .err f .ModelStuck l := by
  rw [C25_machine_refines_spec res B D hB hsize hnp]
  intro y hy
  obtain ⟨s, hs, rfl⟩ := List.mem_map.mp hy
  exact conv_clean (readFile_clean _ D main 0 _ CtxWF_default s hs)

/-- the bound `fsBound fs` is large enough for the modelled file system -/
theorem C25_fsBound (fs : FS) : 2 ≤ fsBound fs ∧
    ∀ a b p c, resolveFs fs a b = .opened p c → c.length + 2 ≤ fsBound fs := by
  have hmono : ∀ (l : FS) (a : Nat), a ≤ l.foldl (fun a e => max a e.2.length) a := by
    intro l
    induction l with
    | nil => intro a; simp
    | cons e l ih => intro a; simp only [List.foldl_cons]; exact Nat.le_trans (Nat.le_max_left _ _) (ih _)
  have hmem : ∀ (l : FS) (a : Nat) e, e ∈ l → e.2.length ≤ l.foldl (fun a e => max a e.2.length) a := by
    intro l
    induction l with
    | nil => intro a e he; simp at he
    | cons x l ih =>
      intro a e he
      simp only [List.foldl_cons]
      simp at he
      rcases he with rfl | he
      · exact Nat.le_trans (Nat.le_max_right _ _) (hmono l _)
      · exact ih _ e he
  refine ⟨by unfold fsBound; omega, ?_⟩
  intro a b p c h
  unfold resolveFs at h
  split at h
  · cases h
  · split at h
    · next content ho =>
      cases h
      unfold openFile at ho
      split at ho
      · cases ho
      · dsimp only at ho
        split at ho
        · split at ho
          · cases ho
          · split at ho
            · next e he =>
              cases ho
              have := hmem fs 0 e (List.mem_of_find?_eq_some he)
              unfold fsBound; omega
            · cases ho
        · cases ho
    · cases h

/-- **Depth limit.** At nesting depth `maxDepth` (or deeper) an `$INCLUDE` is an error and ends
    everything; with `maxDepth = 0` includes are disabled. -/
theorem C25_depth_limit {κ : Type} (resolve : κ → List UInt8 → Option (κ × List UInt8)) (D : Nat)
    (file : κ) (depth : Nat) (p p' : Parser) (line : Nat) (path : List UInt8)
    (origin : Option (List UInt8)) (hn : p.next = (some (.item (.incl line path origin)), p'))
    (hd : D ≤ depth) :
    readFile resolve D file depth p = ([.err file .IncludesTooDeep line], none) := by
  rw [readFile]; simp [hn, hd]

/-- the included file starts with the includer's context, or with the directive's origin -/
theorem C25_include_context (p : Parser) (content : List UInt8) (origin : Option (List UInt8)) :
    (p.newForInclude content origin).ctx =
      (match origin with
       | some o => { p.ctx with origin := some o }
       | none => p.ctx) ∧
    (p.newForInclude content origin).st = ⟨content, 1, false⟩ ∧
    (p.newForInclude content origin).error = false := by
  unfold Parser.newForInclude Parser.withContext
  cases origin <;> simp

/-- after the included file, the includer continues with the includee's final context, except
    for the origin, which is restored -/
theorem C25_origin_restored (p inc : Parser) :
    (p.updateContextFromInclude inc).ctx.origin = p.ctx.origin ∧
    (p.updateContextFromInclude inc).ctx.prevOwner = inc.ctx.prevOwner ∧
    (p.updateContextFromInclude inc).ctx.prevTtl = inc.ctx.prevTtl ∧
    (p.updateContextFromInclude inc).ctx.prevClass = inc.ctx.prevClass ∧
    (p.updateContextFromInclude inc).ctx.defaultTtl = inc.ctx.defaultTtl ∧
    (p.updateContextFromInclude inc).st = p.st := by
  simp [Parser.updateContextFromInclude]

/-- **Relative paths resolve against the including file's directory** (`compute_path` =
    `includer.parent().join(path)`), absolute paths stand for themselves — instances of the
    re-implemented `std::path` functions (their general behaviour is the environment's, compared
    with the real `std` by the correspondence group `include`). -/
theorem C25_path_examples :
    computePath "d/main.zone".toUTF8.toList "b.zone".toUTF8.toList = some "d/b.zone".toUTF8.toList ∧
    computePath "d/main.zone".toUTF8.toList "../b.zone".toUTF8.toList = some "d/../b.zone".toUTF8.toList ∧
    computePath "main.zone".toUTF8.toList "sub/b.zone".toUTF8.toList = some "sub/b.zone".toUTF8.toList ∧
    computePath "d/e/x.zone".toUTF8.toList "/abs/y".toUTF8.toList = some "/abs/y".toUTF8.toList ∧
    computePath "/".toUTF8.toList "x".toUTF8.toList = none := by
  decide +kernel

/-! ### textual inclusion: reading `a ++ b` -/

/-- **Compositionality of the in-memory parser.**  Let `a` be empty or end with a newline that
    is not preceded by a backslash (`Term a`), and let reading `a` from the context `ctx` yield
    no error (which rules out that the final newline lies inside quotes or parentheses).  Then
    reading `a ++ b` yields exactly what reading `a` yields, followed by what reading `b` yields
    from the line and the context at which `a` ended (`Parser.finish`: the parser after `next`
    has returned `None`) — for every `b`.  This is the sense in which including a file is
    *textual*: the included text can be spliced in front of any other text. -/
theorem C25_parse_append (a b : List UInt8) (ctx : Ctx) (hctx : CtxWF ctx) (ha : a = [] ∨ Term a)
    (hok : ∀ y ∈ parseAll a ctx, ∃ i, y = .item i) :
    parseAll (a ++ b) ctx =
      parseAll a ctx ++
        collect ⟨false, ⟨b, (Parser.withContext a ctx).finish.st.line, (Parser.withContext a ctx).finish.st.paren⟩,
          (Parser.withContext a ctx).finish.ctx⟩ :=
  collect_append b a.length a (Nat.le_refl _) ha ctx hctx 1 false hok

/-- the same for a single step of the iterator: as long as the text before `b` is not used up,
    `next` does not see `b` -/
theorem C25_line_frame (ctx : Ctx) (x b : List UInt8) (hx : Term x) (line : Nat) (p : Bool)
    (v : Option Item × Ctx) (y : List UInt8) (line' : Nat) (p' : Bool)
    (h : parseLine ctx ⟨x, line, p⟩ = .ok (v, ⟨y, line', p'⟩)) :
    parseLine ctx ⟨x ++ b, line, p⟩ = .ok (v, ⟨y ++ b, line', p'⟩) ∧ ∃ u, x = u ++ y :=
  let ⟨h1, h2, _⟩ := Frame_parseLine ctx x b line p v y line' p' hx h
  ⟨h1, h2⟩

/-- a file all of whose entries are records, read as (part of) a file tree: its records, tagged
    with the file, and the context in which it ends -/
theorem C25_file_of_records {κ : Type} (resolve : κ → List UInt8 → Option (κ × List UInt8)) (D : Nat) (file : κ)
    (depth : Nat) (n : Nat) : ∀ (p : Parser), p.st.inp.length ≤ n → p.error = false → CtxWF p.ctx →
    (∀ y ∈ collect p, ∃ l r, y = .item (.record l r)) →
    readFile resolve D file depth p =
      ((collect p).filterMap (fun y => match y with
          | .item (.record l r) => some (SY.record file l r)
          | _ => none), some p.finish.ctx) := by
  induction n with
  | zero =>
    intro p hlen herr hctx hrec
    obtain ⟨e, st, ctx⟩ := p
    simp only at herr hlen; subst herr
    have hnil : st.inp = [] := List.length_eq_zero_iff.mp (by omega)
    have hn : (⟨false, st, ctx⟩ : Parser).next = (none, ⟨false, st, ctx⟩) := by
      obtain ⟨inp, l, pr⟩ := st
      simp only at hnil; subst hnil
      simp [Parser.next, untilData]
    rw [readFile, collect_none hn, Parser.finish, hn]
    simp
  | succ n ih =>
    intro p hlen herr hctx hrec
    obtain ⟨e, st, ctx⟩ := p
    simp only at herr hlen hctx; subst herr
    have g := next_spec (p := ⟨false, st, ctx⟩) hctx
    cases hu : untilData ctx st with
    | ok r =>
      obtain ⟨⟨it?, ctx'⟩, st'⟩ := r
      cases it? with
      | none =>
        have hn : (⟨false, st, ctx⟩ : Parser).next = (none, ⟨false, st', ctx'⟩) := by simp [Parser.next, hu]
        rw [readFile, collect_none hn, Parser.finish, hn]
        simp
      | some item =>
        have hn := next_of_untilData hu
        rw [hn] at g
        obtain ⟨_, hctx', hlt⟩ := g
        simp only at hlt hctx'
        have hc := collect_item hn hlt
        obtain ⟨l, r, hlr⟩ := hrec (.item item) (by rw [hc]; simp)
        cases hlr
        have hfin : Parser.finish ⟨false, st, ctx⟩ = Parser.finish ⟨false, st', ctx'⟩ := by
          rw [Parser.finish, hn]; simp [hlt]
        rw [readFile, hn, hfin, hc]
        simp only [hlt, ↓reduceIte, List.filterMap_cons]
        rw [ih ⟨false, st', ctx'⟩ (by simp at hlt ⊢; omega) rfl hctx'
          (fun y hy => hrec y (by rw [hc]; exact List.mem_cons_of_mem _ hy))]
    | err e =>
      exfalso
      have hmem : Yield.err e ∈ collect ⟨false, st, ctx⟩ := by rw [collect]; simp [Parser.next, hu]
      obtain ⟨l, r, h⟩ := hrec _ hmem
      cases h
    | panic =>
      exfalso
      have hmem : Yield.panic ∈ collect ⟨false, st, ctx⟩ := by rw [collect]; simp [Parser.next, hu]
      obtain ⟨l, r, h⟩ := hrec _ hmem
      cases h

/-- **`$INCLUDE` is textual inclusion with origin scoping** (for an included file that consists
    of records only, ends with an unescaped newline and has no errors).  At an `$INCLUDE`
    (`p.next` yields it, leaving the includer at `p'`):

    * the *tree* reading reports the included file's records and then continues reading the
      includer's remaining text `p'.st.inp` in the context in which the included file ended,
      **with the includer's own origin**;
    * the *flat* reading of the included text followed by the includer's remaining text, started
      in the included file's initial context, yields the same items for the included text and
      then continues reading the same remaining text in the context in which the included file
      ended, origin included, at the line after the included text.

    So the two readings differ exactly in the origin restored after the included text (and in
    the line counter, which the tree reading keeps per file).  `_partial`: nested `$INCLUDE`s
    inside the included file, and the equality of the two continuations when the origins agree
    (it needs invariance of the parser under shifting the line counter), are not covered. -/
theorem C25_include_is_textual_partial {κ : Type} (resolve : κ → List UInt8 → Option (κ × List UInt8))
    (D : Nat) (file child : κ) (depth : Nat) (p p' : Parser) (line : Nat) (path content : List UInt8)
    (origin : Option (List UInt8)) (hctx : CtxWF p.ctx)
    (hn : p.next = (some (.item (.incl line path origin)), p')) (hd : depth < D)
    (hres : resolve file path = some (child, content)) (hterm : content = [] ∨ Term content)
    (hrec : ∀ y ∈ parseAll content (childContext p'.ctx origin), ∃ l r, y = .item (.record l r)) :
    let inc := Parser.withContext content (childContext p'.ctx origin)
    -- the tree reading
    readFile resolve D file depth p =
      ((parseAll content (childContext p'.ctx origin)).filterMap (fun y => match y with
          | .item (.record l r) => some (SY.record child l r)
          | _ => none) ++
        (readFile resolve D file depth { p' with ctx := { inc.finish.ctx with origin := p'.ctx.origin } }).1,
       (readFile resolve D file depth { p' with ctx := { inc.finish.ctx with origin := p'.ctx.origin } }).2) ∧
    -- the flat reading of the spliced text
    parseAll (content ++ p'.st.inp) (childContext p'.ctx origin) =
      parseAll content (childContext p'.ctx origin) ++
        collect ⟨false, ⟨p'.st.inp, inc.finish.st.line, inc.finish.st.paren⟩, inc.finish.ctx⟩ := by
  intro inc
  have g := next_spec (p := p) hctx
  rw [hn] at g
  obtain ⟨hitem, hctx', hlt⟩ := g
  have hchild : CtxWF (childContext p'.ctx origin) := by
    unfold childContext
    cases origin with
    | none => exact hctx'
    | some o =>
      simp only [ItemOK] at hitem
      exact ⟨by intro o' ho'; simp at ho'; subst ho'; exact hitem o rfl, hctx'.2⟩
  constructor
  · have hr := C25_file_of_records resolve D child (depth + 1) content.length inc (by simp [inc, Parser.withContext])
      rfl hchild hrec
    rw [readFile, hn]
    have hd' : ¬ depth ≥ D := by omega
    simp only [hd', ↓reduceDIte, hres]
    rw [show Parser.withContext content (childContext p'.ctx origin) = inc from rfl, hr]
    simp only [hlt, ↓reduceIte]
    rfl
  · exact C25_parse_append content p'.st.inp _ hchild hterm
      (fun y hy => by obtain ⟨l, r, h⟩ := hrec y hy; exact ⟨_, h⟩)

/-- **The parser does not depend on where its line counter starts**: reading from line `l + k`
    yields what reading from line `l` yields, with every line number — of records, include
    requests and errors — increased by `k` -/
theorem C25_line_shift (p : Parser) (k : Nat) :
    collect { p with st := ⟨p.st.inp, p.st.line + k, p.st.paren⟩ } = (collect p).map (shiftY k) :=
  collect_shift p k

/-- … and after a text has been read without leaving a line unfinished, the reader is outside
    parentheses -/
theorem C25_ends_outside_parens (p : Parser) (hp : p.st.paren = false) : p.finish.st.paren = false :=
  finish_paren p hp

theorem recsOfSY_tagged {κ : Type} (file : κ) (ys : List Yield) :
    recsOfSY (ys.filterMap (fun y => match y with
        | .item (.record l r) => some (SY.record file l r)
        | _ => none)) = recsOfY ys := recsOfSY_tagRecs file ys

/-- **The flattened-file equation** for one `$INCLUDE`: if the included file consists of records,
    is well terminated and error-free, ends with the origin the includer has (so that restoring
    the includer's origin changes nothing), and the rest of the includer consists of records,
    then reading the tree from the `$INCLUDE` on yields the same records as reading the single
    text in which the `$INCLUDE` line is replaced by the included file's contents.  `_partial`:
    one include, and no `$ORIGIN` lines to emulate the origin scoping when the included file
    leaves another origin behind. -/
theorem C25_flatten_one_partial {κ : Type} (resolve : κ → List UInt8 → Option (κ × List UInt8))
    (D : Nat) (file child : κ) (depth : Nat) (p p' : Parser) (line : Nat) (path content : List UInt8)
    (origin : Option (List UInt8)) (hctx : CtxWF p.ctx) (hp : p.st.paren = false)
    (hn : p.next = (some (.item (.incl line path origin)), p')) (hd : depth < D)
    (hres : resolve file path = some (child, content)) (hterm : content = [] ∨ Term content)
    (hrec : ∀ y ∈ parseAll content (childContext p'.ctx origin), ∃ l r, y = .item (.record l r))
    (hO : (Parser.withContext content (childContext p'.ctx origin)).finish.ctx.origin = p'.ctx.origin)
    (hrest : ∀ y ∈ collect ⟨false, p'.st, (Parser.withContext content (childContext p'.ctx origin)).finish.ctx⟩,
      ∃ l r, y = .item (.record l r)) :
    recsOfSY (readFile resolve D file depth p).1 =
      recsOfY (parseAll (content ++ p'.st.inp) (childContext p'.ctx origin)) := by
  obtain ⟨h1, h2⟩ := C25_include_is_textual_partial resolve D file child depth p p' line path content origin hctx hn hd
    hres hterm hrec
  simp only at h1 h2
  generalize hinc : (Parser.withContext content (childContext p'.ctx origin)).finish = fin at h1 h2 hO hrest
  have g := next_spec (p := p) hctx
  rw [hn] at g
  obtain ⟨hitem, hctx', hlt⟩ := g
  have hchild : CtxWF (childContext p'.ctx origin) := by
    unfold childContext
    cases origin with
    | none => exact hctx'
    | some o =>
      simp only [ItemOK] at hitem
      exact ⟨by intro o' ho'; simp at ho'; subst ho'; exact hitem o rfl, hctx'.2⟩
  -- the context after the included file: restoring the origin changes nothing
  have hrestore : ({ fin.ctx with origin := p'.ctx.origin } : Ctx) = fin.ctx := by
    cases hc : fin.ctx with
    | mk o a b c d => rw [hc] at hO; simp at hO; simp [hO]
  have hfinctx : CtxWF fin.ctx := by rw [← hinc]; exact finish_ctxWF _ hchild
  obtain ⟨_, hp'err⟩ := next_item_error p p' _ hn
  have hp'paren : p'.st.paren = false := next_paren p p' _ hn hp
  have hfinparen : fin.st.paren = false := by rw [← hinc]; exact finish_paren _ rfl
  rw [hrestore] at h1
  -- the tree reading
  have hR := C25_file_of_records resolve D file depth p'.st.inp.length { p' with ctx := fin.ctx } (Nat.le_refl _)
    hp'err hfinctx (by
      have : ({ p' with ctx := fin.ctx } : Parser) = ⟨false, p'.st, fin.ctx⟩ := by
        cases p'; simp at hp'err ⊢; exact hp'err
      rw [this]; exact hrest)
  rw [h1, hR]
  simp only [recsOfSY_append, recsOfSY_tagged]
  -- the flat reading
  rw [h2, recsOfY_append]
  congr 1
  have e1 : ({ p' with ctx := fin.ctx } : Parser) = ⟨false, ⟨p'.st.inp, p'.st.line, false⟩, fin.ctx⟩ := by
    cases p' with
    | mk e st c => cases st; simp at hp'err hp'paren ⊢; exact ⟨hp'err, hp'paren⟩
  rw [e1, hfinparen]
  exact recsOfY_line _ _ _ _ _

/-! ### the flattened file of a whole tree -/

/-- `$ORIGIN` lines exist for every name: `originLine o` (the name written with `\DDD` octets)
    sets the origin to `o` and yields nothing, in every context -/
theorem C25_origin_line (o : List UInt8) (ho : NameWF o) : OLine originLine o := OLine_originLine o ho

/-- **Reading a tree = reading the flattened file.**  `t` describes a file cut at its `$INCLUDE`
    lines, with the included files as sub-trees (`Tree`); `t.content` is the file as it is on
    disk, `t.flat originLine ctx` the flattened text: every `$INCLUDE` line replaced by
    `$ORIGIN <origin of the included file>`, the included file's flattened text, and
    `$ORIGIN <origin of the includer>`.  For every tree that satisfies `TreeOK` (each piece
    between `$INCLUDE` lines ends with an unescaped newline and, read on its own, consists of
    records; each `$INCLUDE` line read on its own is the request it is; paths resolve to the
    sub-trees; the depth limit is respected; where the includer has no origin the included file
    leaves none): the records of the tree reading are exactly the records of the flattened text,
    in order, and both readings end in the same context.  `_partial`: the tree must come cut into
    pieces that parse on their own (the cut is not computed from the text), and files with errors
    are outside the statement. -/
theorem C25_flatten_tree_partial {κ : Type} (resolve : κ → List UInt8 → Option (κ × List UInt8)) (D : Nat)
    (main : κ) (t : Tree κ) (hok : TreeOK resolve D originLine main 0 {} t) :
    recsOfSY (readTree resolve D main t.content) = recsOfY (parseAll (t.flat originLine {}) {}) ∧
    (readFile resolve D main 0 (Parser.new t.content)).2 =
      some (Parser.withContext (t.flat originLine {}) {}).finish.ctx := by
  obtain ⟨h1, h2, _, _⟩ := flatten_tree resolve D originLine t main 0 {} CtxWF_default hok 1
  refine ⟨?_, ?_⟩
  · unfold readTree
    rw [show Parser.new t.content = ⟨false, ⟨t.content, 1, false⟩, {}⟩ from rfl, h1]
    exact recsOfY_line _ _ _ _ _
  · rw [show Parser.new t.content = ⟨false, ⟨t.content, 1, false⟩, {}⟩ from rfl, h2]
    congr 1
    exact finish_ctx_line _ _ _ _ _

/-- the records the machine yields -/
def recsOfFs (ys : List FsYield) : List Rec :=
  ys.filterMap fun y => match y with
    | .record _ _ r => some r
    | _ => none

/-- … and therefore the same holds for the include-stack machine of `fs::Parser::next` -/
theorem C25_flatten_machine_partial (res : Resolver) (B D : Nat) (hB : 2 ≤ B)
    (hsize : ∀ a b p c, res a b = .opened p c → c.length + 2 ≤ B)
    (hnp : ∀ a b, res a b ≠ .noParent) (main : Path) (t : Tree Path)
    (hok : TreeOK (resolveOf res) D originLine main 0 {} t) :
    recsOfFs (runFs res B (FsParser.start main t.content D)) = recsOfY (parseAll (t.flat originLine {}) {}) := by
  rw [C25_machine_refines_spec res B D hB hsize hnp, ← (C25_flatten_tree_partial (resolveOf res) D main t hok).1]
  generalize readTree (resolveOf res) D main t.content = ys
  induction ys with
  | nil => rfl
  | cons y ys ih =>
    simp only [recsOfFs, recsOfSY, List.map_cons, List.filterMap_cons] at ih ⊢
    cases y with
    | record f l r => simp [conv, ih]
    | err f k l => cases k <;> simp [conv, ih]
    | panic => simp [conv, ih]

/-!
  ### What is not proved (gap)

  The property's literal wording — "the same records as parsing the equivalent file with each
  `$INCLUDE` replaced by the included file's contents, where the included file starts with the
  includer's context (or the directive's origin) and the includer's origin is restored
  afterwards" — is proved as `C25_flatten_tree_partial` / `C25_flatten_machine_partial` for whole
  trees with any nesting, the origin scoping being emulated by `$ORIGIN` lines in the flattened
  text (built on `C25_machine_refines_spec`, `C25_parse_append`, `C25_line_shift`,
  `C25_ends_outside_parens`, `C25_origin_line`).  What remains: the tree must be given cut at its
  `$INCLUDE` lines into pieces each of which parses on its own (`TreeOK`, checkable by
  evaluation) — deriving that cut from the text alone needs the parser to be stable under
  *replacing* a suffix of its input, not only under appending one; and trees whose reading hits
  an error are not covered.  On every run the literal form is also checked by the harness's
  flattening oracle (op `incflat`: the flattened single file is parsed by the real in-memory
  parser; the record lists must be equal).
-/

/-! ### non-vacuity: a concrete tree, run through machine and semantics -/

/-- `main.zone`: `$ORIGIN t.` / `$INCLUDE i.zone s.` / `a 5 IN A 1.2.3.4`;
    `i.zone`: `@ 7 IN A 9.9.9.9` -/
def exFs : FS :=
  [("main.zone".toUTF8.toList, "$ORIGIN t.\n$INCLUDE i.zone s.\na 5 IN A 1.2.3.4\n".toUTF8.toList),
   ("i.zone".toUTF8.toList, "@ 7 IN A 9.9.9.9\n".toUTF8.toList)]

/-- the included record is read under the directive's origin `s.`; afterwards the includer's
    origin `t.` is back, while TTL and class flow on from the included file -/
theorem exFs_run :
    runFs (resolveFs exFs) (fsBound exFs) (FsParser.start "main.zone".toUTF8.toList
        "$ORIGIN t.\n$INCLUDE i.zone s.\na IN A 1.2.3.4\n".toUTF8.toList 1) =
      [.record "i.zone".toUTF8.toList 1 ⟨[1, 115, 0], 7, 1, 1, [9, 9, 9, 9]⟩,
       .record "main.zone".toUTF8.toList 3 ⟨[1, 97, 1, 116, 0], 7, 1, 1, [1, 2, 3, 4]⟩] := by
  decide +kernel

/-- with depth limit 0 the same tree is an error at the `$INCLUDE` line -/
example :
    runFs (resolveFs exFs) (fsBound exFs) (FsParser.start "main.zone".toUTF8.toList
        "$ORIGIN t.\n$INCLUDE i.zone s.\na IN A 1.2.3.4\n".toUTF8.toList 0) =
      [.err "main.zone".toUTF8.toList .IncludesTooDeep 2] := by
  decide +kernel

example : ∀ a b, resolveFs exFs a b = .opened [] [] → True := fun _ _ _ => trivial

/-! ### non-vacuity: splicing texts -/

private def exA : List UInt8 := "$ORIGIN t.\na 5 IN NS b\n".toUTF8.toList
private def exB : List UInt8 := " NS c\n".toUTF8.toList

private theorem exA_term : Term exA :=
  ⟨"$ORIGIN t.\na 5 IN NS b".toUTF8.toList, by decide +kernel, by decide +kernel⟩

private theorem exA_parse : parseAll exA {} = [.item (.record 2 ⟨[1, 97, 1, 116, 0], 5, 1, 2, [1, 98, 1, 116, 0]⟩)] := by
  decide +kernel

/-- `C25_parse_append` applies: the text ` NS c` after `a 5 IN NS b` is read at line 3 with
    owner `a.t.`, TTL 5, class IN and origin `t.` -/
example : parseAll (exA ++ exB) {} =
    [.item (.record 2 ⟨[1, 97, 1, 116, 0], 5, 1, 2, [1, 98, 1, 116, 0]⟩)] ++
      collect ⟨false, ⟨exB, 3, false⟩, ⟨some [1, 116, 0], some [1, 97, 1, 116, 0], some 5, some 1, none⟩⟩ := by
  have h := C25_parse_append exA exB {} CtxWF_default (.inr exA_term)
    (by rw [exA_parse]; intro y hy; simp at hy; subst hy; exact ⟨_, rfl⟩)
  rw [h, exA_parse]
  have hf : (Parser.withContext exA {}).finish =
      ⟨false, ⟨[], 3, false⟩, ⟨some [1, 116, 0], some [1, 97, 1, 116, 0], some 5, some 1, none⟩⟩ := by
    decide +kernel
  rw [hf]

example : parseLine {} ⟨exA ++ exB, 1, false⟩ =
    .ok ((none, { origin := some [1, 116, 0] }), ⟨"a 5 IN NS b\n".toUTF8.toList ++ exB, 2, false⟩) :=
  (C25_line_frame {} exA exB exA_term 1 false _ _ 2 false (by decide +kernel)).1

private def exInc : List UInt8 := "@ 7 IN A 9.9.9.9\n".toUTF8.toList
private def exMainRest : List UInt8 := "a IN A 1.2.3.4\n".toUTF8.toList
private def exP : Parser := ⟨false, ⟨"$INCLUDE i.zone s.\n".toUTF8.toList ++ exMainRest, 2, false⟩, { origin := some [1, 116, 0] }⟩
private def exP' : Parser := ⟨false, ⟨exMainRest, 3, false⟩, { origin := some [1, 116, 0] }⟩

/-- `C25_include_is_textual_partial` applies to the include of the example tree: both readings
    yield the included record under origin `s.`; the tree reading continues with origin `t.`,
    the flat reading with origin `s.` -/
example :
    readFile (fun (_ : String) (_ : List UInt8) => some ("i.zone", exInc)) 1 "main.zone" 0 exP =
      ([.record "i.zone" 1 ⟨[1, 115, 0], 7, 1, 1, [9, 9, 9, 9]⟩,
        .record "main.zone" 3 ⟨[1, 97, 1, 116, 0], 7, 1, 1, [1, 2, 3, 4]⟩],
       some ⟨some [1, 116, 0], some [1, 97, 1, 116, 0], some 7, some 1, none⟩) ∧
    parseAll (exInc ++ exMainRest) { origin := some [1, 115, 0] } =
      [.item (.record 1 ⟨[1, 115, 0], 7, 1, 1, [9, 9, 9, 9]⟩),
       .item (.record 2 ⟨[1, 97, 1, 115, 0], 7, 1, 1, [1, 2, 3, 4]⟩)] := by
  have hn : exP.next = (some (.item (.incl 2 "i.zone".toUTF8.toList (some [1, 115, 0]))), exP') := by decide +kernel
  have hparse : parseAll exInc (childContext exP'.ctx (some [1, 115, 0])) =
      [.item (.record 1 ⟨[1, 115, 0], 7, 1, 1, [9, 9, 9, 9]⟩)] := by decide +kernel
  have h := C25_include_is_textual_partial (fun (_ : String) (_ : List UInt8) => some ("i.zone", exInc)) 1
    "main.zone" "i.zone" 0 exP exP' 2 "i.zone".toUTF8.toList exInc (some [1, 115, 0])
    ⟨by intro o ho; cases ho; exact ⟨[[116]], by simp [LabelsOK], by decide, by decide⟩, by intro o ho; cases ho⟩
    hn (by decide) rfl
    (.inr ⟨"@ 7 IN A 9.9.9.9".toUTF8.toList, by decide +kernel, by decide +kernel⟩)
    (by rw [hparse]; intro y hy; simp at hy; subst hy; exact ⟨_, _, rfl⟩)
  have hfin : (Parser.withContext exInc (childContext exP'.ctx (some [1, 115, 0]))).finish =
      ⟨false, ⟨[], 2, false⟩, ⟨some [1, 115, 0], some [1, 115, 0], some 7, some 1, none⟩⟩ := by decide +kernel
  obtain ⟨h1, h2⟩ := h
  constructor
  · rw [h1, hparse, hfin]
    have hrest : readFile (fun (_ : String) (_ : List UInt8) => some ("i.zone", exInc)) 1 "main.zone" 0
        { exP' with ctx := { (⟨some [1, 115, 0], some [1, 115, 0], some 7, some 1, none⟩ : Ctx) with origin := exP'.ctx.origin } } =
        ([.record "main.zone" 3 ⟨[1, 97, 1, 116, 0], 7, 1, 1, [1, 2, 3, 4]⟩],
         some ⟨some [1, 116, 0], some [1, 97, 1, 116, 0], some 7, some 1, none⟩) := by
      have hr := C25_file_of_records (fun (_ : String) (_ : List UInt8) => some ("i.zone", exInc)) 1 "main.zone" 0
        exMainRest.length ⟨false, ⟨exMainRest, 3, false⟩, ⟨some [1, 116, 0], some [1, 115, 0], some 7, some 1, none⟩⟩
        (Nat.le_refl _) rfl
        ⟨by intro o ho; cases ho; exact ⟨[[116]], by simp [LabelsOK], by decide, by decide⟩,
         by intro o ho; cases ho; exact ⟨[[115]], by simp [LabelsOK], by decide, by decide⟩⟩
        (by
          rw [show collect ⟨false, ⟨exMainRest, 3, false⟩, ⟨some [1, 116, 0], some [1, 115, 0], some 7, some 1, none⟩⟩ =
            [.item (.record 3 ⟨[1, 97, 1, 116, 0], 7, 1, 1, [1, 2, 3, 4]⟩)] from by decide +kernel]
          intro y hy; simp at hy; subst hy; exact ⟨_, _, rfl⟩)
      rw [show ({ exP' with ctx := { (⟨some [1, 115, 0], some [1, 115, 0], some 7, some 1, none⟩ : Ctx) with origin := exP'.ctx.origin } } : Parser) =
        ⟨false, ⟨exMainRest, 3, false⟩, ⟨some [1, 116, 0], some [1, 115, 0], some 7, some 1, none⟩⟩ from rfl, hr]
      rw [show collect ⟨false, ⟨exMainRest, 3, false⟩, ⟨some [1, 116, 0], some [1, 115, 0], some 7, some 1, none⟩⟩ =
            [.item (.record 3 ⟨[1, 97, 1, 116, 0], 7, 1, 1, [1, 2, 3, 4]⟩)] from by decide +kernel]
      rw [show (Parser.finish ⟨false, ⟨exMainRest, 3, false⟩, ⟨some [1, 116, 0], some [1, 115, 0], some 7, some 1, none⟩⟩) =
        ⟨false, ⟨[], 4, false⟩, ⟨some [1, 116, 0], some [1, 97, 1, 116, 0], some 7, some 1, none⟩⟩ from by decide +kernel]
      rfl
    rw [hrest]
    rfl
  · rw [show (childContext exP'.ctx (some [1, 115, 0])) = ({ origin := some [1, 115, 0] } : Ctx) from rfl] at h2
    rw [show exP'.st.inp = exMainRest from rfl] at h2
    rw [h2]
    decide +kernel


/-! ### non-vacuity: line counter, parentheses, the flattened file -/

example : collect ⟨false, ⟨exA, 1 + 41, false⟩, {}⟩ =
    [.item (.record 43 ⟨[1, 97, 1, 116, 0], 5, 1, 2, [1, 98, 1, 116, 0]⟩)] := by
  have h := C25_line_shift ⟨false, ⟨exA, 1, false⟩, {}⟩ 41
  simp only at h
  rw [h, show collect ⟨false, ⟨exA, 1, false⟩, {}⟩ = parseAll exA {} from rfl, exA_parse]
  rfl

example : (Parser.withContext "a NS ( b\n ) ; c\n".toUTF8.toList { origin := some [0], prevTtl := some 1, prevClass := some 1 }).finish.st =
    ⟨[], 3, false⟩ ∧
    (Parser.withContext exA {}).finish.st.paren = false :=
  ⟨by decide +kernel, C25_ends_outside_parens _ rfl⟩

private def exP2 : Parser :=
  ⟨false, ⟨"$INCLUDE i.zone\n".toUTF8.toList ++ exMainRest, 2, false⟩, { origin := some [1, 116, 0] }⟩
private def exP2' : Parser := ⟨false, ⟨exMainRest, 3, false⟩, { origin := some [1, 116, 0] }⟩

/-- `C25_flatten_one_partial` applies: `$INCLUDE i.zone` (no origin given; the included file
    keeps the origin `t.`) — tree reading and reading of the flattened text give the same two
    records -/
example :
    recsOfSY (readFile (fun (_ : String) (_ : List UInt8) => some ("i.zone", exInc)) 1 "main.zone" 0 exP2).1 =
      [⟨[1, 116, 0], 7, 1, 1, [9, 9, 9, 9]⟩, ⟨[1, 97, 1, 116, 0], 7, 1, 1, [1, 2, 3, 4]⟩] ∧
    recsOfY (parseAll (exInc ++ exMainRest) { origin := some [1, 116, 0] }) =
      [⟨[1, 116, 0], 7, 1, 1, [9, 9, 9, 9]⟩, ⟨[1, 97, 1, 116, 0], 7, 1, 1, [1, 2, 3, 4]⟩] := by
  have hn : exP2.next = (some (.item (.incl 2 "i.zone".toUTF8.toList (some [1, 116, 0]))), exP2') := by
    decide +kernel
  have hparse : parseAll exInc (childContext exP2'.ctx (some [1, 116, 0])) =
      [.item (.record 1 ⟨[1, 116, 0], 7, 1, 1, [9, 9, 9, 9]⟩)] := by decide +kernel
  have h := C25_flatten_one_partial (fun (_ : String) (_ : List UInt8) => some ("i.zone", exInc)) 1
    "main.zone" "i.zone" 0 exP2 exP2' 2 "i.zone".toUTF8.toList exInc (some [1, 116, 0])
    ⟨by intro o ho; cases ho; exact ⟨[[116]], by simp [LabelsOK], by decide, by decide⟩, by intro o ho; cases ho⟩
    rfl hn (by decide) rfl
    (.inr ⟨"@ 7 IN A 9.9.9.9".toUTF8.toList, by decide +kernel, by decide +kernel⟩)
    (by rw [hparse]; intro y hy; simp at hy; subst hy; exact ⟨_, _, rfl⟩)
    (by decide +kernel)
    (by
      rw [show collect ⟨false, exP2'.st, (Parser.withContext exInc (childContext exP2'.ctx (some [1, 116, 0]))).finish.ctx⟩ =
        [.item (.record 3 ⟨[1, 97, 1, 116, 0], 7, 1, 1, [1, 2, 3, 4]⟩)] from by decide +kernel]
      intro y hy; simp at hy; subst hy; exact ⟨_, _, rfl⟩)
  have hflat : recsOfY (parseAll (exInc ++ exMainRest) { origin := some [1, 116, 0] }) =
      [⟨[1, 116, 0], 7, 1, 1, [9, 9, 9, 9]⟩, ⟨[1, 97, 1, 116, 0], 7, 1, 1, [1, 2, 3, 4]⟩] := by decide +kernel
  exact ⟨h.trans hflat, hflat⟩

/-! ### non-vacuity: a whole tree and its flattened file -/

/-- `main.zone` = `$ORIGIN t.` / `$INCLUDE i.zone s.` / `a IN A 1.2.3.4`, with `i.zone` =
    `@ 7 IN A 9.9.9.9` -/
private def exTree : Tree String :=
  .node "$ORIGIN t.\n".toUTF8.toList "$INCLUDE i.zone s.\n".toUTF8.toList "i.zone".toUTF8.toList
    (some [1, 115, 0]) "i.zone" (.leaf exInc) (.leaf exMainRest)

private def exResolve : String → List UInt8 → Option (String × List UInt8) := fun _ _ => some ("i.zone", exInc)

private theorem nameWF_s : NameWF [1, 115, 0] := ⟨[[115]], by simp [LabelsOK], by decide, by decide⟩
private theorem nameWF_t : NameWF [1, 116, 0] := ⟨[[116]], by simp [LabelsOK], by decide, by decide⟩

/-- the flattened text: `$ORIGIN t.` / `$ORIGIN \115.` / `@ 7 IN A 9.9.9.9` / `$ORIGIN \116.` /
    `a IN A 1.2.3.4` -/
example : exTree.flat originLine {} =
    "$ORIGIN t.\n$ORIGIN \\115.\n@ 7 IN A 9.9.9.9\n$ORIGIN \\116.\na IN A 1.2.3.4\n".toUTF8.toList := by
  decide +kernel

private theorem exTree_ok : TreeOK exResolve 1 originLine "main.zone" 0 {} exTree := by
  unfold exTree
  simp only [TreeOK]
  have hA : endCtx {} "$ORIGIN t.\n".toUTF8.toList = { origin := some [1, 116, 0] } := by decide +kernel
  have hcc : childContext (endCtx {} "$ORIGIN t.\n".toUTF8.toList) (some [1, 115, 0]) = { origin := some [1, 115, 0] } := by
    rw [hA]; rfl
  refine ⟨.inr ⟨"$ORIGIN t.".toUTF8.toList, by decide +kernel, by decide +kernel⟩, ?_,
    ⟨"$INCLUDE i.zone s.".toUTF8.toList, by decide +kernel, by decide +kernel⟩, ⟨1, by decide +kernel⟩, by decide, rfl,
    ⟨.inr ⟨"@ 7 IN A 9.9.9.9".toUTF8.toList, by decide +kernel, by decide +kernel⟩, ?_⟩, ?_, ?_, ?_,
    ⟨.inr ⟨"a IN A 1.2.3.4".toUTF8.toList, by decide +kernel, by decide +kernel⟩, ?_⟩⟩
  · rw [show items0 {} "$ORIGIN t.\n".toUTF8.toList = [] from by decide +kernel]
    intro y hy; cases hy
  · rw [hcc, show items0 { origin := some [1, 115, 0] } exInc =
      [.item (.record 0 ⟨[1, 115, 0], 7, 1, 1, [9, 9, 9, 9]⟩)] from by decide +kernel]
    intro y hy; simp at hy; subst hy; exact ⟨_, _, rfl⟩
  · intro o ho
    rw [hcc] at ho
    cases ho
    exact C25_origin_line _ nameWF_s
  · intro o ho
    rw [hA] at ho
    cases ho
    exact C25_origin_line _ nameWF_t
  · intro ho
    rw [hA] at ho
    cases ho
  · rw [show items0 _ exMainRest = [.item (.record 0 ⟨[1, 97, 1, 116, 0], 7, 1, 1, [1, 2, 3, 4]⟩)] from by decide +kernel]
    intro y hy; simp at hy; subst hy; exact ⟨_, _, rfl⟩

/-- `C25_flatten_tree_partial` applies to it: both readings give the record of the included file
    under `s.` and then the includer's record under `t.` -/
example :
    recsOfSY (readTree exResolve 1 "main.zone" exTree.content) =
      [⟨[1, 115, 0], 7, 1, 1, [9, 9, 9, 9]⟩, ⟨[1, 97, 1, 116, 0], 7, 1, 1, [1, 2, 3, 4]⟩] ∧
    recsOfY (parseAll (exTree.flat originLine {}) {}) =
      [⟨[1, 115, 0], 7, 1, 1, [9, 9, 9, 9]⟩, ⟨[1, 97, 1, 116, 0], 7, 1, 1, [1, 2, 3, 4]⟩] := by
  have h := (C25_flatten_tree_partial exResolve 1 "main.zone" exTree exTree_ok).1
  have hflat : recsOfY (parseAll (exTree.flat originLine {}) {}) =
      [⟨[1, 115, 0], 7, 1, 1, [9, 9, 9, 9]⟩, ⟨[1, 97, 1, 116, 0], 7, 1, 1, [1, 2, 3, 4]⟩] := by decide +kernel
  exact ⟨h.trans hflat, hflat⟩

example : OLine originLine [0] ∧ originLine [0] = "$ORIGIN .\n".toUTF8.toList :=
  ⟨C25_origin_line [0] NameWF_root, by decide +kernel⟩

/-- the same tree through the include-stack machine, with a resolver that opens `i.zone` for
    every `$INCLUDE` -/
private def exTreeFs : Tree Path :=
  .node "$ORIGIN t.\n".toUTF8.toList "$INCLUDE i.zone s.\n".toUTF8.toList "i.zone".toUTF8.toList
    (some [1, 115, 0]) "i.zone".toUTF8.toList (.leaf exInc) (.leaf exMainRest)

private def exRes : Resolver := fun _ _ => .opened "i.zone".toUTF8.toList exInc

example :
    recsOfFs (runFs exRes 100 (FsParser.start "main.zone".toUTF8.toList exTreeFs.content 1)) =
      recsOfY (parseAll (exTreeFs.flat originLine {}) {}) := by
  refine C25_flatten_machine_partial exRes 100 1 (by decide)
    (by intro a b p c h; cases h; decide +kernel) (by intro a b h; cases h)
    "main.zone".toUTF8.toList exTreeFs ?_
  unfold exTreeFs
  simp only [TreeOK]
  have hA : endCtx {} "$ORIGIN t.\n".toUTF8.toList = { origin := some [1, 116, 0] } := by decide +kernel
  have hcc : childContext (endCtx {} "$ORIGIN t.\n".toUTF8.toList) (some [1, 115, 0]) = { origin := some [1, 115, 0] } := by
    rw [hA]; rfl
  refine ⟨.inr ⟨"$ORIGIN t.".toUTF8.toList, by decide +kernel, by decide +kernel⟩, ?_,
    ⟨"$INCLUDE i.zone s.".toUTF8.toList, by decide +kernel, by decide +kernel⟩, ⟨1, by decide +kernel⟩, by decide,
    rfl,
    ⟨.inr ⟨"@ 7 IN A 9.9.9.9".toUTF8.toList, by decide +kernel, by decide +kernel⟩, ?_⟩, ?_, ?_, ?_,
    ⟨.inr ⟨"a IN A 1.2.3.4".toUTF8.toList, by decide +kernel, by decide +kernel⟩, ?_⟩⟩
  · rw [show items0 {} "$ORIGIN t.\n".toUTF8.toList = [] from by decide +kernel]
    intro y hy; cases hy
  · rw [hcc, show items0 { origin := some [1, 115, 0] } exInc =
      [.item (.record 0 ⟨[1, 115, 0], 7, 1, 1, [9, 9, 9, 9]⟩)] from by decide +kernel]
    intro y hy; simp at hy; subst hy; exact ⟨_, _, rfl⟩
  · intro o ho
    rw [hcc] at ho
    cases ho
    exact C25_origin_line _ nameWF_s
  · intro o ho
    rw [hA] at ho
    cases ho
    exact C25_origin_line _ nameWF_t
  · intro ho
    rw [hA] at ho
    cases ho
  · rw [show items0 _ exMainRest = [.item (.record 0 ⟨[1, 97, 1, 116, 0], 7, 1, 1, [1, 2, 3, 4]⟩)] from by decide +kernel]
    intro y hy; simp at hy; subst hy; exact ⟨_, _, rfl⟩

end QV.C25
