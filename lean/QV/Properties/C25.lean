/-
  C25 — $INCLUDE behaves like textual inclusion with origin scoping.

  "Parsing a zone file from the file system yields the same records as parsing the equivalent
   file with each $INCLUDE replaced by the included file's contents, where the included file
   starts with the includer's context (or the directive's origin) and the includer's origin is
   restored afterwards. Relative include paths resolve against the including file's directory,
   and nesting deeper than the configured limit is an error."

  Model: `QV.Model.Include` (the include stack of `fs::Parser::next`).  Spec:
  `QV.Spec.Include.readFile` (recursive semantics, no stack).
-/
import QV.Model.Include
import QV.Spec.Include
import QV.Proofs.ZoneFile.Parser

namespace QV.C25
open QV QV.ZF QV.Inc

/-- the included file starts with the includer's context, or with the directive's origin -/
theorem C25_include_context (p : Parser) (content : List UInt8) (origin : Option (List UInt8)) :
    (p.newForInclude content origin).ctx =
      (match origin with
       | some o => { p.ctx with origin := some o }
       | none => p.ctx) ∧
    (p.newForInclude content origin).st = ⟨content, 1, false⟩ ∧
    (p.newForInclude content origin).error = false := by
  unfold Parser.newForInclude Parser.withContext
  cases origin <;> simp

/-- after the included file, the includer continues with the includee's final context, except
    for the origin, which is restored -/
theorem C25_origin_restored (p inc : Parser) :
    (p.updateContextFromInclude inc).ctx.origin = p.ctx.origin ∧
    (p.updateContextFromInclude inc).ctx.prevOwner = inc.ctx.prevOwner ∧
    (p.updateContextFromInclude inc).ctx.prevTtl = inc.ctx.prevTtl ∧
    (p.updateContextFromInclude inc).ctx.prevClass = inc.ctx.prevClass ∧
    (p.updateContextFromInclude inc).ctx.defaultTtl = inc.ctx.defaultTtl ∧
    (p.updateContextFromInclude inc).st = p.st := by
  simp [Parser.updateContextFromInclude]

end QV.C25
