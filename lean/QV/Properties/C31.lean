/-
  C31 — Reloading keeps every zone on its own latest good data.

  "After the daemon reloads on SIGHUP, each configured zone is served from its newly loaded data
   if its file loaded and validated, from its previously served data if it failed, and with
   SERVFAIL if it has never loaded; zones removed from the configuration are no longer served.
   A zone's load failure never changes what any other zone serves."

  Model: `QV.Model.Reload` (mirrors src/bin/quandaryd/zones.rs `load`/`reload`/`load_impl`/
  `check_mtime`/`make_error_catalog_entry` and the reload path of src/bin/quandaryd/run.rs) on
  top of the C22 catalog model.   Spec: `QV.Spec.Reload` — a per-zone rule `specZone`, folded
  over the zone's own view of the history.

  Shape: refinement, for every history of (configuration, file-system state) steps — including
  steps at which the configuration cannot be loaded — with a reload after each.

  Interpretations (also in the evidence):
  * what a zone "is served from" is read off its catalog entry: `Loaded` = that data,
    `FailedToLoad`/`NotYetLoaded` = SERVFAIL (`stateOf`); which entry answers a query name is the
    longest-match `lookup` of C22 (`C31_query`);
  * "unchanged on disk" is the daemon's mtime criterion (`unchanged`); `C31_rule_text` shows that
    under the environment assumption `MtimeSound` the rule coincides with the property text;
  * the same zone configured twice: `config.rs` (`find_duplicated_zone`) rejects such a
    configuration, which is a `configError` step (nothing changes). `load_impl` itself, given a
    list with duplicates, lets the *last* configuration of a key win (each one is evaluated
    against the *old* catalog); the theorems are stated with `lastCfg` and hold with or without
    duplicates, `C31_lastCfg_nodup` says what `lastCfg` is when there are none.
-/
import QV.Proofs.Reload
import QV.Generated.Reload

namespace QV.C31
open QV QV.Catalog QV.Reload QV.Spec.Catalog QV.Spec.Reload

/-- the state of zone `(n, cls)` in the served catalog: `none` = not served (REFUSED / parent
    zone answers), `some failed` = SERVFAIL, `some (good d ..)` = answers from data `d` -/
def served (st : Option Catalog) (n : DName) (cls : Nat) : Option SZone :=
  (st.bind (fun c => get c n cls)).map stateOf

/-- the state of the zone that answers a query for `n`: the longest-match entry -/
def answering (st : Option Catalog) (n : DName) (cls : Nat) : Option SZone :=
  (st.bind (fun c => lookup c n cls)).map stateOf

/-- the served catalog always satisfies the C22 invariant -/
theorem C31_invariant (steps : List Step) (c : Catalog) (h : daemonRun steps = some c) : c.Inv :=
  (daemonRun_foldl steps none (fun _ => none) (by simp) (fun k => rfl)).1 c h

theorem served_eq (st : Option Catalog) (h : ∀ c, st = some c → c.Inv) (n : DName) (cls : Nat) :
    served st n cls = servedAt st (cls, foldName n) := by
  cases st with
  | none => rfl
  | some c =>
    simp only [served, servedAt, prevEntry, Option.bind_some, get_eq_absFind c (h c rfl).2]

/-- **Main theorem.** After every history of reloads, every zone is in exactly the state the
    per-zone rule yields from *that zone's own* view of the history: its own configuration
    entries, the state of its own file at each reload, and nothing else. -/
theorem C31_served (steps : List Step) (n : DName) (cls : Nat) :
    served (daemonRun steps) n cls = specHist (steps.map (viewOf (cls, foldName n))) := by
  rw [served_eq _ (C31_invariant steps)]
  exact (daemonRun_foldl steps none (fun _ => none) (by simp) (fun k => rfl)).2 _

/-- Which zone answers a query: the configured zone with the longest matching name, in the state
    given by its own history. In particular a configured child zone that never loaded answers
    SERVFAIL itself — its parent's data is not used for it. -/
theorem C31_query (steps : List Step) (n : DName) (cls : Nat) :
    answering (daemonRun steps) n cls =
      lsuf (fun k => specHist (steps.map (viewOf k))) cls (foldName n) := by
  have h := daemonRun_foldl steps none (fun _ => none) (by simp) (fun k => rfl)
  unfold answering
  cases hst : daemonRun steps with
  | none =>
    have h2 : ∀ k, specHist (steps.map (viewOf k)) = none := by
      intro k
      have := h.2 k
      unfold daemonRun at hst
      rw [hst] at this
      exact this.symm
    simp only [Option.bind_none, Option.map_none, h2]
    generalize foldName n = nm
    induction nm with
    | nil => rfl
    | cons l r ih => simp [lsuf, ← ih]
  | some c =>
    simp only [Option.bind_some, lookup_eq_lsuf, lsuf_map]
    apply lsuf_congr
    intro k
    have := h.2 k
    unfold daemonRun at hst
    rw [hst] at this
    exact this

/-! ### the daemon's signal loop (src/bin/quandaryd/run.rs)

  `daemonRun` idealises the loop: every catalog a reload builds is what is served next and what
  the next reload starts from. `loopRun sh` is the loop with that plumbing explicit, for a loop
  of shape `sh`; the shape of the actual source is extracted on every run. -/

/-- **Structural premise, checked on the source on every run**: after the start-up load the
    catalog is installed; the SIGHUP arm assigns the catalog returned by `reload_zones_and_keys`
    to the variable it passes to the next call; a successful reload installs that catalog in the
    server; and `zones::reload` gets that variable as its baseline. A tree in which any of these
    no longer holds (e.g. the `Ok` arm stops assigning `catalog = new_catalog`) fails here. -/
theorem C31_structural_premise :
    Gen.reloadStartupInstallsCatalog = true ∧ Gen.reloadLoopThreadsCatalog = true ∧
    Gen.reloadInstallsCatalog = true ∧ Gen.reloadBaselineIsCurrent = true := by decide

/-- **The daemon loop.** For a loop with the four structural premises, after every history of
    start-up + SIGHUPs (configuration errors included) the catalog the *server answers from* puts
    every zone in the state the per-zone specification prescribes. -/
theorem C31_daemon_loop (sh : LoopShape) (hs : sh = .good) (alt : Catalog) (steps : List Step)
    (n : DName) (cls : Nat) :
    served (loopRun sh alt steps).served n cls = specHist (steps.map (viewOf (cls, foldName n))) := by
  subst hs
  rw [loopRun_good]
  exact C31_served steps n cls

/-- … and so does the loop of the repository under test. -/
theorem C31_daemon_loop_code (alt : Catalog) (steps : List Step) (n : DName) (cls : Nat) :
    served (loopRun codeShape alt steps).served n cls =
      specHist (steps.map (viewOf (cls, foldName n))) :=
  C31_daemon_loop codeShape (by decide) alt steps n cls

/-- the same for the entry that answers a query name (longest match) -/
theorem C31_daemon_loop_query (alt : Catalog) (steps : List Step) (n : DName) (cls : Nat) :
    answering (loopRun codeShape alt steps).served n cls =
      lsuf (fun k => specHist (steps.map (viewOf k))) cls (foldName n) := by
  have : codeShape = .good := by decide
  rw [this, loopRun_good]
  exact C31_query steps n cls

/-! ### independence -/

/-- **Independence.** What zone `k` is served from depends only on `k`'s own view of the history:
    two histories that look the same from `k` (same configuration entries for `k`, same state of
    `k`'s file at each reload) leave `k` in the same state, whatever happens to all other zones
    and files in them. -/
theorem C31_independence (steps steps' : List Step) (n : DName) (cls : Nat)
    (h : steps.map (viewOf (cls, foldName n)) = steps'.map (viewOf (cls, foldName n))) :
    served (daemonRun steps) n cls = served (daemonRun steps') n cls := by
  rw [C31_served, C31_served, h]

/-- One reload, two environments that differ arbitrarily except on the file of the configuration
    in force for zone `(n, cls)`: that zone ends up in the same state. (Changing zone A's file —
    making it fail, fixing it, deleting it — never changes what zone B ≠ A gets.) -/
theorem C31_independence_step (steps : List Step) (zones : List ZoneConfig) (fs fs' : FS)
    (n : DName) (cls : Nat)
    (h : ∀ zc, lastCfg (cls, foldName n) zones = some zc →
      fs.stat zc.path = fs'.stat zc.path ∧ fs.load zc = fs'.load zc) :
    served (daemonRun (steps ++ [.reload zones fs])) n cls =
      served (daemonRun (steps ++ [.reload zones fs'])) n cls := by
  apply C31_independence
  simp only [List.map_append, List.map_cons, List.map_nil, List.append_cancel_left_eq,
    List.cons.injEq, and_true, viewOf]
  cases hl : lastCfg (cls, foldName n) zones with
  | none => rfl
  | some zc =>
    obtain ⟨h1, h2⟩ := h zc hl
    simp [viewOfCfg, h1, h2]

/-! ### the per-zone rule says what the property text says -/

/-- loaded and validated ⇒ the newly loaded data (unless the file is unchanged, see below) -/
theorem C31_rule_loaded (prev : Option SZone) (v : ZView) (d : Nat)
    (hu : unchanged prev v = false) (hs : v.stat ≠ .unreadable) (hl : v.load = some d) :
    specZone prev v = .good d v.path v.stat.time := by
  simp only [specZone, hu, hl]
  cases h : v.stat <;> simp_all

/-- failed (cannot stat the file, or it does not load / validate) ⇒ the zone's own previous
    state: its previously served data if it had any, SERVFAIL if it has never loaded -/
theorem C31_rule_failed (prev : Option SZone) (v : ZView)
    (hf : v.stat = .unreadable ∨ v.load = none) : specZone prev v = keep prev := by
  simp only [specZone]
  split
  · rfl
  · rcases hf with hf | hf
    · simp [hf]
    · cases h : v.stat <;> simp [hf]

theorem C31_keep_some (s : SZone) : keep (some s) = s := rfl
theorem C31_keep_none : keep none = .failed := rfl

/-- unchanged on disk ⇒ the zone keeps its state … -/
theorem C31_rule_unchanged (prev : Option SZone) (v : ZView) (hu : unchanged prev v = true) :
    specZone prev v = keep prev := by
  simp [specZone, hu]

/-- … and under the environment assumption `MtimeSound` (a file not newer than the version being
    served still has that version's content) the rule is exactly the property text: the data
    served is the newly loadable data if the file loads, the zone's own previous data otherwise. -/
theorem C31_rule_text (prev : Option SZone) (v : ZView) (hm : MtimeSound prev v) :
    (specZone prev v).data =
      match v.stat, v.load with
      | .unreadable, _ => (keep prev).data
      | _, some d => some d
      | _, none => (keep prev).data := by
  by_cases hu : unchanged prev v = true
  · have hl := hm hu
    rw [C31_rule_unchanged prev v hu]
    cases hs : v.stat with
    | unreadable => rfl
    | mtime t => simp only [hl]; cases h : (keep prev).data <;> rfl
    | noMtime => simp only [hl]; cases h : (keep prev).data <;> rfl
  · simp only [Bool.not_eq_true] at hu
    simp only [specZone, hu]
    cases hs : v.stat <;> cases hl : v.load <;> simp [SZone.data]

/-- removed from the configuration ⇒ no longer served; configuration error ⇒ nothing changes -/
theorem C31_rule_unconfigured (prev : Option SZone) : specStep prev .unconfigured = none := rfl
theorem C31_rule_configError (prev : Option SZone) : specStep prev .configError = prev := rfl

/-! ### configurations: which entry is in force -/

theorem C31_lastCfg_mem (k : Key) (zones : List ZoneConfig) (zc : ZoneConfig)
    (h : lastCfg k zones = some zc) : zc ∈ zones ∧ cfgKey zc = k := by
  induction zones with
  | nil => simp [lastCfg] at h
  | cons z r ih =>
    simp only [lastCfg] at h
    cases hr : lastCfg k r with
    | some x =>
      rw [hr] at h; cases h
      exact ⟨List.mem_cons_of_mem _ (ih hr).1, (ih hr).2⟩
    | none =>
      rw [hr] at h
      by_cases hz : cfgKey z = k
      · simp only [hz, if_true, Option.some.injEq] at h; subst h; exact ⟨List.mem_cons_self, hz⟩
      · simp [hz] at h

/-- a zone that is not configured has no configuration in force -/
theorem C31_lastCfg_none (k : Key) (zones : List ZoneConfig) (h : ∀ zc ∈ zones, cfgKey zc ≠ k) :
    lastCfg k zones = none := by
  cases hl : lastCfg k zones with
  | none => rfl
  | some zc => exact absurd (C31_lastCfg_mem k zones zc hl).2 (h zc (C31_lastCfg_mem k zones zc hl).1)

/-- without duplicates (what `config.rs` enforces) the configuration in force for a configured
    zone is its one configuration -/
theorem C31_lastCfg_nodup (zones : List ZoneConfig) (hn : (zones.map cfgKey).Nodup)
    (zc : ZoneConfig) (h : zc ∈ zones) : lastCfg (cfgKey zc) zones = some zc := by
  induction zones with
  | nil => simp at h
  | cons z r ih =>
    simp only [List.map_cons, List.nodup_cons] at hn
    simp only [lastCfg]
    rcases List.mem_cons.mp h with e | hm
    · subst e
      rw [C31_lastCfg_none _ r (fun x hx hk => hn.1 (by rw [← hk]; exact List.mem_map_of_mem hx))]
      simp
    · rw [ih hn.2 hm]

/-! ### non-vacuity and regression witnesses -/

def nA : DName := [[97]]              -- a.
def nBA : DName := [[98], [97]]       -- b.a.
def nCA : DName := [[99], [97]]       -- c.a.

/-- file 1 (zone a.) has mtime `t1` and loads to `d1` (or fails when `d1 = 0`); file 2 likewise;
    every other file is missing -/
def fsOf (t1 d1 : Nat) (f2 : Option (Nat × Nat)) : FS where
  stat := fun p => if p = 1 then .ok t1 else if p = 2 then
    (match f2 with | some (t, _) => .ok t | none => .err) else .err
  load := fun zc => if zc.path = 1 then (if d1 = 0 then .fail else .ok d1) else if zc.path = 2 then
    (match f2 with | some (_, d) => if d = 0 then .fail else .ok d | none => .fail) else .fail

/-- The D12 shape (commit b00796e): `a.` is loaded; then the never-loaded child `b.a.` is added
    to the configuration with a missing file. The child must answer SERVFAIL and the parent keep
    its data (the defective code re-inserted the parent's entry for the child). -/
def d12 : List Step :=
  [.reload [⟨nA, 1, 1⟩] (fsOf 5 10 none),
   .reload [⟨nA, 1, 1⟩, ⟨nBA, 1, 2⟩] (fsOf 5 10 none)]

example : served (daemonRun d12) nBA 1 = some .failed := by decide +kernel
example : served (daemonRun d12) nA 1 = some (.good 10 1 (some 5)) := by decide +kernel
example : answering (daemonRun d12) [[120], [98], [97]] 1 = some .failed := by decide +kernel
example : answering (daemonRun d12) nCA 1 = some (.good 10 1 (some 5)) := by decide +kernel

/-- a longer history: load both; the child's file breaks (newer mtime, fails) → old child data
    kept, parent reloaded from its changed file; then the child is removed from the configuration;
    then a configuration error -/
def h2 : List Step :=
  [.reload [⟨nA, 1, 1⟩, ⟨nBA, 1, 2⟩] (fsOf 5 10 (some (5, 20))),
   .reload [⟨nA, 1, 1⟩, ⟨nBA, 1, 2⟩] (fsOf 6 11 (some (7, 0))),
   .reload [⟨nA, 1, 1⟩] (fsOf 6 11 (some (7, 0))),
   .configError]

example : served (daemonRun (h2.take 2)) nBA 1 = some (.good 20 2 (some 5)) := by decide +kernel
example : served (daemonRun (h2.take 2)) nA 1 = some (.good 11 1 (some 6)) := by decide +kernel
example : served (daemonRun h2) nBA 1 = none := by decide +kernel
example : served (daemonRun h2) nA 1 = some (.good 11 1 (some 6)) := by decide +kernel

/-- **The threading premise is necessary.** A loop that installs each new catalog but keeps the
    start-up catalog as the baseline of every reload (the `Ok` arm without `catalog = new_catalog`)
    violates the specification: `a.` loads v10 at start-up, v11 at the first SIGHUP, its file is
    broken at the second — it must stay on v11 but falls back to v10. -/
def unthreaded : LoopShape := ⟨true, false, true, true⟩
def h3 : List Step :=
  [.reload [⟨nA, 1, 1⟩] (fsOf 1 10 none), .reload [⟨nA, 1, 1⟩] (fsOf 2 11 none),
   .reload [⟨nA, 1, 1⟩] (fsOf 3 0 none)]

theorem C31_loop_needs_threading :
    served (loopRun unthreaded Cat.empty h3).served nA 1 = some (.good 10 1 (some 1)) ∧
    specHist (h3.map (viewOf (1, foldName nA))) = some (.good 11 1 (some 2)) := by decide +kernel

example : served (loopRun .good Cat.empty h3).served nA 1 = some (.good 11 1 (some 2)) := by
  decide +kernel

/-- the hypotheses of the independence theorem are satisfiable non-trivially: the child's file
    differs between the two environments, the parent's does not -/
example : served (daemonRun ([Step.reload [⟨nA, 1, 1⟩, ⟨nBA, 1, 2⟩] (fsOf 5 10 (some (5, 20)))] ++
      [.reload [⟨nA, 1, 1⟩, ⟨nBA, 1, 2⟩] (fsOf 6 11 (some (7, 0)))])) nA 1 =
    served (daemonRun ([Step.reload [⟨nA, 1, 1⟩, ⟨nBA, 1, 2⟩] (fsOf 5 10 (some (5, 20)))] ++
      [.reload [⟨nA, 1, 1⟩, ⟨nBA, 1, 2⟩] (fsOf 6 11 none)])) nA 1 := by
  apply C31_independence_step
  intro zc hz
  have : zc = ⟨nA, 1, 1⟩ := by
    have h : lastCfg ((1 : Nat), foldName nA) [⟨nA, 1, 1⟩, ⟨nBA, 1, 2⟩] = some ⟨nA, 1, 1⟩ := by
      decide +kernel
    rw [h] at hz; cases hz; rfl
  subst this
  exact ⟨rfl, rfl⟩

example : ∃ c, daemonRun d12 = some c ∧ c.Inv := by
  cases h : daemonRun d12 with
  | none => exact absurd h (by decide +kernel)
  | some c => exact ⟨c, rfl, C31_invariant d12 c h⟩

/-- the three clauses of the rule on concrete views: newer valid file → new data; newer broken
    file → own old data; never loaded and missing → SERVFAIL; untouched file → kept -/
example : specZone (some (.good 10 1 (some 5))) ⟨1, .mtime 6, some 11⟩ = .good 11 1 (some 6) :=
  C31_rule_loaded _ _ 11 (by decide) (by decide) rfl
example : specZone (some (.good 10 1 (some 5))) ⟨1, .mtime 6, none⟩ = .good 10 1 (some 5) :=
  C31_rule_failed _ _ (Or.inr rfl)
example : specZone none ⟨2, .unreadable, none⟩ = .failed := C31_rule_failed _ _ (Or.inl rfl)
example : specZone (some (.good 10 1 (some 5))) ⟨1, .mtime 5, some 10⟩ = .good 10 1 (some 5) :=
  C31_rule_unchanged _ _ (by decide)

/-- `MtimeSound` holds in the ordinary situation (file untouched) and `C31_rule_text` applies -/
example : MtimeSound (some (.good 10 1 (some 5))) ⟨1, .mtime 5, some 10⟩ := by decide
example : ¬ MtimeSound (some (.good 10 1 (some 5))) ⟨1, .mtime 4, some 11⟩ := by decide
example : (zonesNodup : ([⟨nA, 1, 1⟩, ⟨nBA, 1, 2⟩] : List ZoneConfig).map cfgKey |>.Nodup) →
    lastCfg (cfgKey ⟨nBA, 1, 2⟩) [⟨nA, 1, 1⟩, ⟨nBA, 1, 2⟩] = some ⟨nBA, 1, 2⟩ :=
  fun hn => C31_lastCfg_nodup _ hn _ (by simp)

end QV.C31
