/-
  C21 — Zone validation reports exactly the defined semantic issues.

  "For any zone, validation reports exactly the issues a reference checker finds: a missing or
   multiple apex SOA, a missing apex NS, in-zone name servers or mail exchangers without
   addresses, missing glue under the zone's glue policy, multiple CNAMEs, CNAMEs with other data,
   and NS records at wildcard names. Only the MX-address and NS-at-wildcard issues are warnings."

  Model: `QV.Model.Validation` (mirrors src/db/zone/validation.rs) on the tree of
  `QV.Model.Zone`. Reference checker: `QV.Spec.Zone.HasIssue`, a predicate ("set comprehension")
  over the flat record list that uses only the specification's lookups (`specLookupAddrs`),
  never the tree. Name extraction from RDATA is a parameter `nameOf` shared by both (the driver
  instantiates it with the model of `Name::try_from_uncompressed_all` on the model side and with
  the independent RFC 1035 decoder of `QV.Spec.NameWire` on the specification side).
  The severity split is taken from the source by the extractor (`Gen.validationErrors`,
  `Gen.validationWarnings`: the `matches!` list of `ValidationIssue::is_error`).
-/
import QV.Proofs.ZoneOracle

namespace QV.C21
open QV QV.NameL QV.Zone QV.Spec.Zone

/-- The property at full strength: on the zone reached by any add sequence, `validate` fails
    exactly when the reference checker meets an unparsable name field, and otherwise returns, as a
    set, exactly the issues the reference checker finds; and the error / warning split is the
    specified one. -/
def C21_full : Prop :=
  ∀ (eqv : Eqv) (nameOf : NameOf) (apex : Name) (cls : Nat) (glue : GluePolicy) (rs : List Rec),
    let z := build eqv (Zone.new apex cls glue) rs
    let s := specBuild eqv ⟨apex, cls, glue, []⟩ rs
    (validate nameOf z = none ↔ InvalidRdata nameOf s) ∧
    (∀ l, validate nameOf z = some l → ∀ i, i ∈ l ↔ HasIssue nameOf s i) ∧
    (∀ i : Issue, i.isError = specIsError i)

/-- **Main theorem**: C21 holds at full strength. -/
theorem C21_holds : C21_full := by
  intro eqv nameOf apex cls glue rs z s
  have h := Rel.reachable eqv apex cls glue rs
  have hw := build_wf eqv (Zone.new apex cls glue) rs Node.empty_wf
  obtain ⟨h1, h2⟩ := validate_eq_spec h hw nameOf
  exact ⟨h1, h2, isError_eq⟩

/-- The executable reference checker that the correspondence check runs as oracle
    (`specValidate`) computes exactly the declarative one. -/
theorem C21_oracle (nameOf : NameOf) (s : SZone) :
    (specValidate nameOf s = none ↔ InvalidRdata nameOf s) ∧
    (∀ l, specValidate nameOf s = some l → ∀ i, i ∈ l ↔ HasIssue nameOf s i) :=
  ⟨specValidate_none nameOf s, fun l h i => specValidate_mem nameOf s l h i⟩

/-- Only the MX-address and NS-at-wildcard issues are warnings — read off the source:
    `is_error` is false exactly for the variants the extractor found in its `matches!` list. -/
theorem C21_severity_from_source :
    Gen.validationWarnings = ["MissingMxAddress", "NsAtWildcard"] ∧
    Gen.validationErrors = ["MissingApexSoa", "TooManyApexSoas", "MissingApexNs", "MissingNsAddress",
      "MissingGlue", "DuplicateCname", "OtherRecordsAtCname"] ∧
    Gen.validationVariants.length = 9 := by decide

theorem C21_severity (i : Issue) :
    i.isError = false ↔ (∃ n, i = .MissingMxAddress n) ∨ (∃ n, i = .NsAtWildcard n) := by
  rw [isError_eq]
  cases i <;> simp [specIsError]

/-- address checks apply exactly in the classes the source names in `class_has_addrs` -/
theorem C21_addr_classes : Gen.addrClasses = [IN, CH] := by decide

/-- No spurious issue: every reported issue is one the reference checker finds. -/
theorem C21_no_spurious (eqv : Eqv) (nameOf : NameOf) (apex : Name) (cls : Nat) (glue : GluePolicy)
    (rs : List Rec) (l : List Issue) (i : Issue)
    (hv : validate nameOf (build eqv (Zone.new apex cls glue) rs) = some l) (hi : i ∈ l) :
    HasIssue nameOf (specBuild eqv ⟨apex, cls, glue, []⟩ rs) i :=
  ((C21_holds eqv nameOf apex cls glue rs).2.1 l hv i).mp hi

/-- No missed issue. -/
theorem C21_complete (eqv : Eqv) (nameOf : NameOf) (apex : Name) (cls : Nat) (glue : GluePolicy)
    (rs : List Rec) (l : List Issue) (i : Issue)
    (hv : validate nameOf (build eqv (Zone.new apex cls glue) rs) = some l)
    (hi : HasIssue nameOf (specBuild eqv ⟨apex, cls, glue, []⟩ rs) i) : i ∈ l :=
  ((C21_holds eqv nameOf apex cls glue rs).2.1 l hv i).mpr hi

/-! ### non-vacuity: the glue-policy distinction on a concrete zone -/

def oct : Eqv := fun _ _ a b => a == b
def lz : Label := [122]
def nm (ls : List Label) : Rdata := toWire ls
/-- `z.` with SOA and NS `n.z` (address present) and a delegation `a.z NS n.b.z`. While `b.z`
    is not delegated, `n.b.z` is an in-zone name that does not exist: `MissingNsAddress`. Once
    `b.z NS n.b.z` is added, `n.b.z` lies below the cut `b.z` and has no glue: under the narrow
    policy only `b.z`'s own delegation needs it (reported once); under the wide policy the sibling
    delegation `a.z` needs it too (reported twice — the same element of the set). -/
def exRecs : List Rec :=
  [⟨[lz], 6, 1, 60, [0]⟩, ⟨[lz], 2, 1, 60, nm [[110], lz]⟩, ⟨[[110], lz], 1, 1, 60, [127, 0, 0, 1]⟩,
   ⟨[[97], lz], 2, 1, 60, nm [[110], [98], lz]⟩]

example : validate ofWire (build oct (Zone.new [lz] 1 .narrow) exRecs) =
    some [.MissingNsAddress [[110], [98], lz]] := by decide
example : validate ofWire (build oct (Zone.new [lz] 1 .wide)
    (exRecs ++ [⟨[[98], lz], 2, 1, 60, nm [[110], [98], lz]⟩])) =
      some [.MissingGlue [[110], [98], lz], .MissingGlue [[110], [98], lz]] := by decide
example : validate ofWire (build oct (Zone.new [lz] 1 .narrow)
    (exRecs ++ [⟨[[98], lz], 2, 1, 60, nm [[110], [98], lz]⟩])) = some [.MissingGlue [[110], [98], lz]] := by decide
example : validate ofWire (build oct (Zone.new [lz] 1 .narrow) [⟨[lz], 2, 1, 60, [5]⟩]) = none := by decide

end QV.C21
