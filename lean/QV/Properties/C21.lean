/-
  C21 — Zone validation reports exactly the defined semantic issues.

  "For any zone, validation reports exactly the issues a reference checker finds: a missing or
   multiple apex SOA, a missing apex NS, in-zone name servers or mail exchangers without
   addresses, missing glue under the zone's glue policy, multiple CNAMEs, CNAMEs with other data,
   and NS records at wildcard names. Only the MX-address and NS-at-wildcard issues are warnings."
-/
import QV.Proofs.Zone

namespace QV.C21
open QV QV.NameL QV.Zone QV.Spec.Zone

/-- The property at full strength: on the zone reached by any add sequence, `validate` fails
    exactly when the reference checker meets an unparsable name field, and otherwise returns, as a
    set, exactly the issues the reference checker (`HasIssue`, a predicate over the flat record
    list) finds; and the error / warning split is the specified one. -/
def C21_full : Prop :=
  ∀ (eqv : Eqv) (nameOf : NameOf) (apex : Name) (cls : Nat) (glue : GluePolicy) (rs : List Rec),
    let z := build eqv (Zone.new apex cls glue) rs
    let s := specBuild eqv ⟨apex, cls, glue, []⟩ rs
    (validate nameOf z = none ↔ InvalidRdata nameOf s) ∧
    (∀ l, validate nameOf z = some l → ∀ i, i ∈ l ↔ HasIssue nameOf s i) ∧
    (∀ i : Issue, i.isError = specIsError i)

end QV.C21
