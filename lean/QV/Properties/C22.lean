/-
  C22 — Catalog updates never disturb unrelated entries.

  "After any history of catalog inserts and removals, looking up a name returns the entry of that
   class whose name is the longest suffix of the name, exact lookup returns only an entry with
   exactly that name, and iteration yields exactly the current entries. Removing one entry never
   removes or alters any other entry."

  Model: `QV.Model.Catalog` (mirrors src/db/hash_map_tree/catalog.rs, src/db/catalog.rs,
  src/db/hash_map_tree/node.rs, src/db/single_zone_catalog.rs).
  Spec:  `QV.Spec.Catalog` — a finite map (class × case-folded name) ⇀ entry.

  Shape: refinement. `abs` maps a tree to the list of its bindings; `Cat.Inv` is the invariant
  (no duplicate classes / child labels, no empty node, every entry filed under its own key).
  Everything is proved for *every* history `ops : List (Op μ)` from the empty catalog, and the
  one-step theorems for *every* catalog satisfying the invariant. `μ` (the metadata type) is
  arbitrary.

  Interpretation: names are compared label-wise and ASCII-case-insensitively (RFC 4343), as
  `Label`'s `Eq`/`Hash` do; "the entry whose name is the longest suffix" is `IsLongestMatch`.
-/
import QV.Proofs.Catalog

namespace QV.C22
open QV QV.Catalog QV.Spec.Catalog

variable {μ : Type}

/-! ### invariant -/

/-- The tree invariant holds after every history: classes and child labels are never duplicated,
    no node is empty (so nothing leaks and pruning is exact), and every entry sits at the node
    of its own name in the tree of its own class. -/
theorem C22_invariant (ops : List (Op μ)) : (run ops).Inv := (refines_run ops).1

/-- … and it is preserved by each operation on any catalog that satisfies it. -/
theorem C22_invariant_step (c : Cat μ) (op : Op μ) (h : c.Inv) : (step c op).Inv := by
  cases op with
  | insert e => exact inv_insert c e h
  | remove n cls => exact inv_remove c n cls h

/-! ### refinement: the tree denotes the finite map -/

/-- **Main theorem.** After every history the tree denotes exactly the finite map obtained by
    running the same history on the specification: same binding for every key, and the list of
    the tree's bindings is a permutation of the map (neither has duplicate keys). -/
theorem C22_abs_run (ops : List (Op μ)) :
    (∀ k, sfind (abs (run ops)) k = sfind (specRun ops) k) ∧
      (abs (run ops)).Perm (specRun ops) := by
  obtain ⟨hi, hn, hf⟩ := refines_run ops
  have h1 : ∀ k, sfind (abs (run ops)) k = sfind (specRun ops) k := fun k => by
    rw [sfind_abs _ hi.1, hf]
  exact ⟨h1, perm_of_bindings (nodupKeys_abs _ hi.1) hn h1⟩

/-- `lookup` returns what the specification's longest-suffix search returns. -/
theorem C22_lookup (ops : List (Op μ)) (n : DName) (cls : Nat) :
    lookup (run ops) n cls = specLookup (specRun ops) n cls := by
  obtain ⟨_, _, hf⟩ := refines_run ops
  rw [lookup_eq_lsuf, specLookup, longestSuffix_eq_lsuf]
  exact lsuf_congr _ _ hf _ _

/-- … which is, declaratively: the entry of that class bound to the longest suffix of the name,
    and `none` exactly when no suffix of the name is bound. -/
theorem C22_lookup_longest (ops : List (Op μ)) (n : DName) (cls : Nat) :
    IsLongestMatch (specRun ops) cls (foldName n) (lookup (run ops) n cls) := by
  rw [C22_lookup]; exact longestSuffix_isLongestMatch _ _ _

/-- The declarative reading determines the result (so `C22_lookup_longest` says everything). -/
theorem C22_longest_unique {ε : Type} (m : SMap ε) (cls : Nat) (n : SName) (r r' : Option ε)
    (h : IsLongestMatch m cls n r) (h' : IsLongestMatch m cls n r') : r = r' :=
  isLongestMatch_unique m cls n r r' h h'

/-- `get` returns the entry bound to exactly this name and class, or nothing. -/
theorem C22_get (ops : List (Op μ)) (n : DName) (cls : Nat) :
    get (run ops) n cls = specGet (specRun ops) n cls := by
  obtain ⟨hi, _, hf⟩ := refines_run ops
  rw [get_eq_absFind _ hi.2, hf, specGet]

/-- an entry returned by `get` has exactly the queried name (up to case) and class -/
theorem C22_get_exact (ops : List (Op μ)) (n : DName) (cls : Nat) (e : Entry μ)
    (h : get (run ops) n cls = some e) : e.cls = cls ∧ foldName e.name = foldName n := by
  obtain ⟨hi, _, _⟩ := refines_run ops
  rw [get_eq_absFind _ hi.2] at h
  have := hi.2 _ _ h
  simp only [keyOf, Prod.mk.injEq] at this
  exact this

/-- Iteration yields exactly the current entries (each once; order unspecified). -/
theorem C22_iter (ops : List (Op μ)) : (iter (run ops)).Perm (specIter (specRun ops)) := by
  rw [iter_eq_abs, specIter]
  exact (C22_abs_run ops).2.map _

/-- `insert` returns the entry it replaced, `remove` the entry it removed. -/
theorem C22_insert_returns (ops : List (Op μ)) (e : Entry μ) :
    (insert (run ops) e).2 = specGet (specRun ops) e.name e.cls := by
  obtain ⟨_, _, hf⟩ := refines_run ops
  rw [insert_old, hf]; rfl

theorem C22_remove_returns (ops : List (Op μ)) (n : DName) (cls : Nat) :
    (remove (run ops) n cls).2 = specGet (specRun ops) n cls := by
  obtain ⟨_, _, hf⟩ := refines_run ops
  rw [remove_old, hf]; rfl

/-! ### frame properties: an operation on one key leaves every other key alone

  Stated for any catalog satisfying the invariant (hence, by `C22_invariant`, for the catalog
  after any history). -/

/-- Removing `(n, cls)` leaves the exact lookup of every other key unchanged … -/
theorem C22_remove_frame_get (c : Cat μ) (h : c.Inv) (n n' : DName) (cls cls' : Nat)
    (hk : (cls', foldName n') ≠ (cls, foldName n)) :
    get (remove c n cls).1 n' cls' = get c n' cls' := by
  rw [get_eq_absFind _ (inv_remove c n cls h).2, get_eq_absFind _ h.2, absFind_remove, if_neg hk]

/-- … and removes that key itself. -/
theorem C22_remove_get_self (c : Cat μ) (h : c.Inv) (n : DName) (cls : Nat) :
    get (remove c n cls).1 n cls = none := by
  rw [get_eq_absFind _ (inv_remove c n cls h).2, absFind_remove, if_pos rfl]

/-- Inserting `e` leaves the exact lookup of every other key unchanged and binds its own. -/
theorem C22_insert_frame_get (c : Cat μ) (h : c.Inv) (e : Entry μ) (n' : DName) (cls' : Nat) :
    get (insert c e).1 n' cls' =
      if (cls', foldName n') = keyOf e then some e else get c n' cls' := by
  rw [get_eq_absFind _ (inv_insert c e h).2, get_eq_absFind _ h.2, absFind_insert]

/-- Removing `(n, cls)` leaves the longest-match lookup of `n'` unchanged unless the removed
    entry *was* that longest match (in which case the next-longest takes over, see
    `C22_lookup_longest`). -/
theorem C22_remove_frame_lookup (c : Cat μ) (h : c.Inv) (n n' : DName) (cls cls' : Nat)
    (hk : (lookup c n' cls').map keyOf ≠ some (cls, foldName n)) :
    lookup (remove c n cls).1 n' cls' = lookup c n' cls' := by
  rw [lookup_eq_lsuf, lookup_eq_lsuf] at *
  generalize foldName n' = nm at *
  induction nm with
  | nil =>
    simp only [lsuf, absFind_remove] at *
    by_cases he : (cls', ([] : SName)) = (cls, foldName n)
    · rw [if_pos he]
      cases hf : absFind c (cls', []) with
      | none => rfl
      | some x => rw [hf] at hk; exact absurd (by rw [Option.map_some, h.2 _ _ hf, he]) hk
    · rw [if_neg he]
  | cons l r ih =>
    simp only [lsuf, absFind_remove] at *
    by_cases he : (cls', l :: r) = (cls, foldName n)
    · rw [if_pos he]
      cases hf : absFind c (cls', l :: r) with
      | none => rw [hf] at hk; simp only [Option.none_or] at hk ⊢; exact ih hk
      | some x =>
        rw [hf] at hk
        exact absurd (by rw [Option.some_or, Option.map_some, h.2 _ _ hf, he]) hk
    · rw [if_neg he]
      cases hf : absFind c (cls', l :: r) with
      | none => rw [hf] at hk; simp only [Option.none_or] at hk ⊢; exact ih hk
      | some x => simp

/-- In particular: if the removed name is not a suffix of the query (or the class differs), the
    lookup cannot change. -/
theorem C22_remove_frame_lookup_unrelated (c : Cat μ) (h : c.Inv) (n n' : DName) (cls cls' : Nat)
    (hk : ¬ (cls = cls' ∧ foldName n <:+ foldName n')) :
    lookup (remove c n cls).1 n' cls' = lookup c n' cls' := by
  apply C22_remove_frame_lookup c h
  intro hm
  apply hk
  cases hl : lookup c n' cls' with
  | none => rw [hl] at hm; cases hm
  | some e =>
    rw [hl] at hm
    simp only [Option.map_some, Option.some.injEq] at hm
    rw [lookup_eq_lsuf] at hl
    obtain ⟨s, hs, hf⟩ := lsuf_some _ _ _ _ hl
    have := h.2 _ _ hf
    rw [hm] at this
    simp only [Prod.mk.injEq] at this
    exact ⟨this.1, this.2 ▸ hs⟩

/-- One removal acts on the denoted map as erasing one key: every other binding survives
    unaltered, so iteration afterwards yields exactly the other entries. -/
theorem C22_remove_abs (c : Cat μ) (h : c.Inv) (n : DName) (cls : Nat) :
    (abs (remove c n cls).1).Perm (serase (abs c) (cls, foldName n)) := by
  have h' := inv_remove c n cls h
  apply perm_of_bindings (nodupKeys_abs _ h'.1) (nodupKeys_serase _ (nodupKeys_abs _ h.1))
  intro k
  rw [sfind_abs _ h'.1, absFind_remove, sfind_serase, sfind_abs _ h.1]

theorem C22_insert_abs (c : Cat μ) (h : c.Inv) (e : Entry μ) :
    (abs (insert c e).1).Perm (sinsert (abs c) (keyOf e) e) := by
  have h' := inv_insert c e h
  apply perm_of_bindings (nodupKeys_abs _ h'.1) (nodupKeys_sinsert _ _ (nodupKeys_abs _ h.1))
  intro k
  rw [sfind_abs _ h'.1, absFind_insert, sfind_sinsert, sfind_abs _ h.1]

theorem C22_remove_iter (c : Cat μ) (h : c.Inv) (n : DName) (cls : Nat) :
    (iter (remove c n cls).1).Perm
      ((iter c).filter (fun e => decide (keyOf e ≠ (cls, foldName n)))) := by
  rw [iter_eq_abs, iter_eq_abs]
  refine ((C22_remove_abs c h n cls).map _).trans ?_
  have : ∀ l : SMap (Entry μ), (∀ p ∈ l, keyOf p.2 = p.1) →
      (serase l (cls, foldName n)).map (·.2) =
        (l.map (·.2)).filter (fun e => decide (keyOf e ≠ (cls, foldName n))) := by
    intro l hl
    induction l with
    | nil => simp [serase]
    | cons a r ih =>
      have ha := hl a List.mem_cons_self
      have ih := ih (fun p hp => hl p (List.mem_cons_of_mem _ hp))
      simp only [serase] at ih
      by_cases hk : a.1 = (cls, foldName n)
      · have hk' : keyOf a.2 = (cls, foldName n) := ha.trans hk
        simp only [serase, List.filter_cons, List.map_cons, hk, hk', ne_eq, not_true_eq_false,
          decide_false, Bool.false_eq_true, if_false]
        exact ih
      · have hk' : ¬ keyOf a.2 = (cls, foldName n) := fun e => hk (ha.symm.trans e)
        simp only [serase, List.filter_cons, List.map_cons, hk, hk', ne_eq, not_false_eq_true,
          decide_true, if_true, List.cons.injEq, true_and]
        exact ih
  rw [this]
  intro p hp
  obtain ⟨k, e⟩ := p
  exact h.2 k e ((mem_abs c h.1 k e).mp hp)

/-- **Corollary (the last sentence of the property), over histories.** After any history,
    removing one entry does not change what `get` returns for any other key. -/
theorem C22_remove_keeps_others (ops : List (Op μ)) (n n' : DName) (cls cls' : Nat)
    (hk : (cls', foldName n') ≠ (cls, foldName n)) :
    get (run (ops ++ [.remove n cls])) n' cls' = get (run ops) n' cls' := by
  have : run (ops ++ [Op.remove n cls]) = (remove (run ops) n cls).1 := by
    simp [run, List.foldl_append, step]
  rw [this]
  exact C22_remove_frame_get _ (C22_invariant ops) n n' cls cls' hk

/-! ### SingleZoneCatalog: the finite map with one binding -/

/-- `SingleZoneCatalog::lookup` is the specification's lookup on the one-binding map. -/
theorem C22_single_lookup (e : Entry μ) (n : DName) (cls : Nat) :
    szLookup e n cls = specLookup (single (keyOf e) e) n cls := by
  simp only [szLookup, specLookup, longestSuffix_single, keyOf, foldName_eq_lowerName,
    Bool.and_eq_true, beq_iff_eq, eqOrSubdomainOf_iff]

/-- `SingleZoneCatalog::get` is the specification's exact lookup on the one-binding map. -/
theorem C22_single_get (e : Entry μ) (n : DName) (cls : Nat) :
    szGet e n cls = specGet (single (keyOf e) e) n cls := by
  simp only [szGet, specGet, single, sfind, keyOf, foldName_eq_lowerName, Prod.mk.injEq,
    Bool.and_eq_true, beq_iff_eq, nameEq_iff]
  by_cases hc : e.cls = cls
  · by_cases hs : lowerName n = lowerName e.name
    · simp [hc, hs]
    · have hs' : ¬ lowerName e.name = lowerName n := fun h => hs h.symm
      simp [hc, hs, hs']
  · simp [hc]

/-! ### non-vacuity and regression witnesses -/

def nA : DName := [[97]]              -- a.
def nBA : DName := [[98], [97]]       -- b.a.
def nBAup : DName := [[66], [65]]     -- B.A.
def nCBA : DName := [[99], [98], [97]] -- c.b.a.
def eA : Entry Nat := ⟨nA, 1, .Loaded, 1, 10⟩
def eBA : Entry Nat := ⟨nBA, 1, .NotYetLoaded, 0, 20⟩

/-- The witness history of the repaired defect D09 (commit fee812d): insert a., insert b.a.,
    remove b.a. — the entry of a. must survive, exact and longest-match. -/
def d09 : List (Op Nat) := [.insert eA, .insert eBA, .remove nBA 1]

example : get (run d09) nA 1 = some eA := by decide +kernel
example : lookup (run d09) nCBA 1 = some eA := by decide +kernel
example : get (run d09) nBA 1 = none := by decide +kernel
example : iter (run d09) = [eA] := by decide +kernel

/-- a non-trivial history: nested names, a case variant, two classes; the hypotheses of the
    frame theorems are satisfiable and the results are the expected ones -/
def h1 : List (Op Nat) := [.insert eA, .insert eBA, .insert ⟨nA, 3, .FailedToLoad, 0, 30⟩]

example : (run h1).Inv := C22_invariant h1
example : lookup (run h1) nCBA 1 = some eBA := by decide +kernel
example : lookup (run h1) nBAup 1 = some eBA := by decide +kernel
example : get (run h1) nCBA 1 = none := by decide +kernel
example : lookup (run h1) nCBA 3 = some ⟨nA, 3, .FailedToLoad, 0, 30⟩ := by decide +kernel
example : ((1 : Nat), foldName nA) ≠ (1, foldName nBA) := by decide +kernel
example : get (run (h1 ++ [.remove nBA 1])) nA 1 = some eA := by
  rw [C22_remove_keeps_others h1 nBA nA 1 1 (by decide +kernel)]; decide +kernel
/-- hypotheses of the lookup frame theorems hold on a concrete catalog: removing c.b.a. (absent)
    or a. in class 3 cannot change the lookup of c.b.a. in class 1, and removing b.a. — which *is*
    the longest match of c.b.a. — is correctly excluded -/
example : lookup (remove (run h1) nA 3).1 nCBA 1 = lookup (run h1) nCBA 1 :=
  C22_remove_frame_lookup_unrelated _ (C22_invariant h1) nA nCBA 3 1 (by decide +kernel)
example : (lookup (run h1) nCBA 1).map keyOf ≠ some (1, foldName nA) := by decide +kernel
example : lookup (remove (run h1) nA 1).1 nCBA 1 = lookup (run h1) nCBA 1 :=
  C22_remove_frame_lookup _ (C22_invariant h1) nA nCBA 1 1 (by decide +kernel)
example : (lookup (run h1) nCBA 1).map keyOf = some (1, foldName nBA) := by decide +kernel
example : lookup (remove (run h1) nBA 1).1 nCBA 1 = some eA := by decide +kernel

example : IsLongestMatch (specRun h1) 1 (foldName nCBA) (some eBA) := by
  have := C22_lookup_longest h1 nCBA 1
  rwa [show lookup (run h1) nCBA 1 = some eBA by decide +kernel] at this

end QV.C22
