/-
  C04 — Responses respect the transport size limit and truncate correctly.

  "A UDP response never exceeds 512 octets without EDNS, or the requestor's advertised payload
   size clamped to [512, the server's configured size] with EDNS. When the complete answer does
   not fit, a UDP response sets TC and carries no answer, authority or additional records other
   than OPT/TSIG; TCP responses never set TC. Whenever the complete response (as produced over
   TCP) fits within the UDP limit, the UDP response is identical to it, and otherwise a UDP
   response with TC clear differs from it only by omitted optional additional records, never by
   in-bailiwick referral glue."

  Four parts (DESIGN.md §6 C04):
    T1  size ≤ limit                      — a property of the writer (`available ≤ limit`): stated
                                            (`C04_T1_full`), audited on every response by `aud`/`audans`
    T2  truncation handling               — proved here, on the operation log of the answer phase
    T3  limit monotonicity (UDP = TCP when TCP fits)
                                          — a property of the writer: proved for the calls of the
                                            answer phase (`C04_T3`), audited end to end
    T4  only optional additional records may be missing, never mandatory glue
                                          — proved here as statements about which calls are issued
                                            inside `execute_allowing_truncation`

  Model: `handleNonAxfrQueryL` and the functions it calls (`QV.Model.Server`), with the ghost
  operation log; `view` (`QV.Proofs.ServerAnswer`) abstracts a log to RCODE/AA/TC/sections.
  All T2/T4 statements hold for *every* writer behaviour (no assumption on which calls fit).

  Interpretation and the one corner (T3): "complete response (as produced over TCP)" is read as
  "the TCP run produced the complete answer". When the answering logic would fail with SERVFAIL
  *after* the UDP limit has already been exceeded (a CNAME chain with long names that is also too
  long or loops), UDP says TC (retry over TCP) and TCP says SERVFAIL — both correct, not identical.
  `C04_T3_corner_shape` shows this is exactly what the model does; it is listed as a known finding
  (tag `C04:T3-tcp-servfail-after-udp-overflow`, corpus/C04).
-/
import QV.Proofs.ServerAnswer
import QV.Proofs.ServerAnswerLimit
import QV.Proofs.Writer

namespace QV.C04
open QV QV.Writer QV.Server QV.Zone QV.Spec.Zone QV.Spec.Resolve QV.ServerAnswer

/-! ### full statements of the writer-side parts -/

/-- what the writer has promised to leave free: the OPT record and the TSIG record -/
def reserved (s : Writer.State) : Nat :=
  (if s.edns.isSome then Gen.OPT_RECORD_SIZE else 0) + (match s.tsig with | some t => t.reservedLen | none => 0)

/-- the writer's size invariant (established by `Writer.new`, kept by every operation: C12) -/
def SizeInv (s : Writer.State) : Prop :=
  s.cursor ≤ s.available ∧ s.available + reserved s = s.limit ∧ s.limit ≤ s.octets.size

/-- **T1 at full strength**: a finished message is never longer than the writer's limit (which
    `handle_message` sets to 512, or `clamp(requestor's size, 512, server's size)` when the scan
    reaches an OPT record, for UDP; 65 535 for TCP). -/
def C04_T1_full : Prop :=
  ∀ (s : Writer.State) (macFn : Writer.Tsig → List UInt8 → List UInt8) (bytes : Bytes) (mac : Option (List UInt8)),
    SizeInv s → Writer.finish s macFn = .ok (bytes, mac) → bytes.size ≤ s.limit

/-- **T1 holds**: from the writer's size invariant alone, whatever `finish` hands back fits the
    limit (the writer's theorem `QV.Writer.finish_size_le_limit'`, C12 (b)) -/
theorem C04_T1 : C04_T1_full := by
  intro s macFn bytes mac hs hf
  obtain ⟨h1, h2, _⟩ := hs
  have hres : s.limit - s.available =
      (if s.edns.isSome then Gen.OPT_RECORD_SIZE else 0) + Writer.tsigReserved s.tsig := by
    have : reserved s = (if s.edns.isSome then Gen.OPT_RECORD_SIZE else 0) + Writer.tsigReserved s.tsig := by
      unfold reserved Writer.tsigReserved
      cases s.tsig <;> rfl
    omega
  exact Writer.finish_size_le_limit' macFn s h1 (by omega) hres bytes mac hf

/-- the size invariant is the size part of the writer's invariant `QV.Writer.Inv`, which
    `Writer::new` establishes and every public call keeps (C12 (a)) -/
theorem C04_sizeInv_of_inv (s : Writer.State) (h : Writer.Inv s) : SizeInv s := by
  refine ⟨h.cur_av, ?_, h.lim_size⟩
  have h1 := h.reserved
  have h2 := h.av_lim
  have : reserved s = s.limit - s.available := by rw [h1]; rfl
  omega

/-- two writer states that differ only in how much room there is -/
def SameButLimit (s1 s2 : Writer.State) : Prop :=
  s1.limit ≤ s2.limit ∧ s2.available = s1.available + (s2.limit - s1.limit) ∧
  { s2 with limit := s1.limit, available := s1.available } = s1

/-- `SameButLimit s1 s2` says `s2` is `s1` with `s2.limit - s1.limit` more octets of room -/
theorem sameButLimit_iff_lift (s1 s2 : Writer.State) :
    SameButLimit s1 s2 ↔ ∃ d, s2 = lift d s1 := by
  constructor
  · rintro ⟨h1, h2, h3⟩
    refine ⟨s2.limit - s1.limit, ?_⟩
    cases s1; cases s2
    simp only [lift, State.mk.injEq] at h1 h2 h3 ⊢
    obtain ⟨e1, e2, _, _, e5, e6, e7, e8, e9, e10, e11, e12, e13, e14, e15, e16, e17, e18, e19, e20⟩ := h3
    refine ⟨e1, e2, by omega, by omega, e5, e6, e7, e8, e9, e10, e11, e12, e13, e14, e15, e16, e17, e18, e19, e20⟩
  · rintro ⟨d, rfl⟩
    refine ⟨by simp [lift], by simp [lift], ?_⟩
    cases s1; rfl

/-- **T3 at full strength** (limit monotonicity of the writer, for the calls of the answer phase
    — `set_aa`, `set_rcode`, `add_*_rr`, `add_*_rrset`): a sequence of calls that succeeds, call
    for call, under the larger limit and ends within the smaller room succeeds under the smaller
    limit too, and leaves the same state up to the room — the same cursor, octets, counts and
    header. (The server issues the same calls over both transports as long as none fails, so the
    UDP response equals the TCP one whenever the latter's complete answer fits the UDP limit.)

    The calls of the *scan* phase are deliberately not in the list: `set_edns` / `set_tsig`
    reserve room (a run that ends within the smaller room may still have no place for the
    reservation there) and `set_limit` changes the room; over UDP and TCP the scan differs only by
    `set_limit`, after which both writers are in `SameButLimit` states. -/
def C04_T3_full : Prop :=
  ∀ (cs : List AnsCall) (s1 s2 t2 : Writer.State), SameButLimit s1 s2 →
    runCalls cs s2 = (.ok (), t2) → t2.cursor ≤ s1.available →
      ∃ t1, runCalls cs s1 = (.ok (), t1) ∧ SameButLimit t1 t2 ∧
        t1.cursor = t2.cursor ∧ t1.octets = t2.octets

/-- **T3 holds.** (`QV.ServerAnswer.sim_runCalls`; call by call `sim_addRrOp`, `sim_addRrsetOp`:
    every internal step of the writer — names, compression decisions, RDATA components — reads
    the room only through "does it fit".) -/
theorem C04_T3 : C04_T3_full := by
  intro cs s1 s2 t2 hs h hc
  obtain ⟨d, rfl⟩ := (sameButLimit_iff_lift s1 s2).mp hs
  obtain ⟨t1, h1, ht⟩ := sim_runCalls cs d s1 t2 h hc
  refine ⟨t1, h1, (sameButLimit_iff_lift t1 t2).mpr ⟨d, ht⟩, ?_, ?_⟩ <;> rw [ht] <;> rfl

/-- one record-adding call does not depend on the limit -/
theorem C04_T3_add_rrset (sec : RrSection) (hint : Hint) (owner : WName) (ty cls ttl : Nat)
    (rds : List (List UInt8)) (d : Nat) (s t : Writer.State)
    (h : addRrsetOp sec hint owner ty cls ttl rds (lift d s) = (.ok (), t)) (hc : t.cursor ≤ s.available) :
    ∃ s', addRrsetOp sec hint owner ty cls ttl rds s = (.ok (), s') ∧ t = lift d s' :=
  sim_addRrsetOp sec hint owner ty cls ttl rds d s () t h hc

/-- when the answering logic succeeds, `handle_non_axfr_query` adds nothing (either transport) -/
theorem C04_handle_of_inner_ok (z : Zone.Zone) (qname : WName) (qtype : Nat) (tr : Transport) (ps ps' : PS)
    (h : inner z qname qtype ps = (.ok (), ps')) : handleNonAxfrQueryL z qname qtype tr ps = (.ok (), ps') := by
  have hin : (if qtype = QT "ANY" then answerAny z qname ps else Server.answer z qname qtype ps)
      = inner z qname qtype ps := by
    unfold inner; split <;> rfl
  unfold handleNonAxfrQueryL
  simp only [hin, h]

/-- **T3 for the server's answer phase**: let the writers of the two transports differ only in the
    room (`lift d w` has `d` more octets than `w` — TCP vs UDP after `set_limit`). If with more
    room the answering logic succeeds with every call accepted (the complete answer) and the
    result fits the smaller room, then with the smaller room `handle_non_axfr_query` makes the
    same calls with the same results (the same log, so the same RCODE, AA, sections, TC clear) and
    leaves the same octets: the UDP response is the TCP response. When the answering logic *fails*
    with more room (SERVFAIL) nothing of the kind holds — `C04_T3_corner_shape`, known finding K01. -/
theorem C04_T3_answer_phase (z : Zone.Zone) (qname : WName) (qtype : Nat) (tr1 tr2 : Transport) (d : Nat)
    (w : Writer.State) (pt : PS)
    (h : inner z qname qtype ⟨lift d w, []⟩ = (.ok (), pt)) (hok : ∀ e ∈ pt.log, OkEv e)
    (hc : pt.w.cursor ≤ w.available) :
    handleNonAxfrQueryL z qname qtype tr2 ⟨lift d w, []⟩ = (.ok (), pt) ∧
    ∃ ps', handleNonAxfrQueryL z qname qtype tr1 ⟨w, []⟩ = (.ok (), ps') ∧ ps'.log = pt.log ∧
      pt.w = lift d ps'.w ∧ ps'.w.cursor = pt.w.cursor ∧ ps'.w.octets = pt.w.octets := by
  refine ⟨C04_handle_of_inner_ok z qname qtype tr2 _ _ h, ?_⟩
  obtain ⟨ps', h1, h2, h3⟩ := inner_limit_independent z qname qtype d w pt h hok hc
  exact ⟨ps', C04_handle_of_inner_ok z qname qtype tr1 _ _ h1, h2, h3, by rw [h3]; rfl, by rw [h3]; rfl⟩

/-! ### T2: what `handle_non_axfr_query` does with a `Truncation` -/

/-- **the epilogue, exactly**: whatever the answering logic (`answer` / `answer_any`) returned,
    `handle_non_axfr_query` appends precisely `tailEvs`: nothing on success; `set_aa(false)`,
    `set_rcode(SERVFAIL)`, `clear_rrs` on `ServFail`; on `Truncation` `clear_rrs` followed by
    `set_tc(true)` over UDP, by `set_aa(false)`, `set_rcode(SERVFAIL)` over TCP. -/
theorem C04_epilogue (z : Zone.Zone) (qname : WName) (qtype : Nat) (tr : Transport) (ps : PS)
    (hnb : NoBad (handleNonAxfrQueryL z qname qtype tr ps).2.log) :
    (handleNonAxfrQueryL z qname qtype tr ps).2.log
      = (inner z qname qtype ps).2.log ++ tailEvs tr (inner z qname qtype ps).1 :=
  (handle_log z qname qtype tr ps hnb).1

/-- **UDP**: a `Truncation` error of the answering logic yields TC set and all three sections
    empty (the RCODE and AA set so far stay), and the handler returns normally. -/
theorem C04_truncation_udp (z : Zone.Zone) (qname : WName) (qtype : Nat) (ps : PS)
    (hnb : NoBad (handleNonAxfrQueryL z qname qtype .udp ps).2.log)
    (ht : (inner z qname qtype ps).1 = .err .truncation) :
    (handleNonAxfrQueryL z qname qtype .udp ps).1 = .ok () ∧
    (view (handleNonAxfrQueryL z qname qtype .udp ps).2.log).tc = true ∧
    (view (handleNonAxfrQueryL z qname qtype .udp ps).2.log).answer = [] ∧
    (view (handleNonAxfrQueryL z qname qtype .udp ps).2.log).authority = [] ∧
    (view (handleNonAxfrQueryL z qname qtype .udp ps).2.log).additional = [] := by
  obtain ⟨hl, hr⟩ := handle_log z qname qtype .udp ps hnb
  refine ⟨hr (by rw [ht]; simp), ?_⟩
  rw [hl, view_tail, ht]
  simp

/-- **TCP**: a `Truncation` error yields SERVFAIL with AA clear and empty sections — and the
    epilogue does not touch TC (it stays whatever it was: clear, see `C04_tc_never_in_answer_phase`). -/
theorem C04_truncation_tcp (z : Zone.Zone) (qname : WName) (qtype : Nat) (ps : PS)
    (hnb : NoBad (handleNonAxfrQueryL z qname qtype .tcp ps).2.log)
    (ht : (inner z qname qtype ps).1 = .err .truncation) :
    (handleNonAxfrQueryL z qname qtype .tcp ps).1 = .ok () ∧
    view (handleNonAxfrQueryL z qname qtype .tcp ps).2.log
      = { rcode := SERVFAIL, aa := false, tc := (view (inner z qname qtype ps).2.log).tc,
          answer := [], authority := [], additional := [] } := by
  obtain ⟨hl, hr⟩ := handle_log z qname qtype .tcp ps hnb
  refine ⟨hr (by rw [ht]; simp), ?_⟩
  rw [hl, view_tail, ht]
  simp

/-- a `ServFail` error clears the sections and AA, on both transports -/
theorem C04_servfail_clears (z : Zone.Zone) (qname : WName) (qtype : Nat) (tr : Transport) (ps : PS)
    (hnb : NoBad (handleNonAxfrQueryL z qname qtype tr ps).2.log)
    (ht : (inner z qname qtype ps).1 = .err .servFail) :
    view (handleNonAxfrQueryL z qname qtype tr ps).2.log
      = { rcode := SERVFAIL, aa := false, tc := (view (inner z qname qtype ps).2.log).tc,
          answer := [], authority := [], additional := [] } := by
  obtain ⟨hl, _⟩ := handle_log z qname qtype tr ps hnb
  rw [hl, view_tail, ht]

/-- **TC is set nowhere else**: for every zone built through the API, the answering logic itself
    logs no `set_tc` (and no `clear_rrs`), whatever the writer does … -/
theorem C04_tc_never_in_answer_phase (eqv : Eqv) (apex : NameL.Name) (cls : Nat) (glue : GluePolicy) (rs : List Rec)
    (qname : WName) (qtype : Nat) (ha : Folded apex) (hq : apex <:+ fold qname) (ps : PS) :
    ∃ evs, (inner (build eqv (Zone.new apex cls glue) rs) qname qtype ps).2.log = ps.log ++ evs ∧
      ∀ e ∈ evs, (∀ b, e ≠ .tc b) ∧ e ≠ .clear := by
  have hR := Rel.reachable eqv apex cls glue rs
  have hap : (specBuild eqv ⟨apex, cls, glue, []⟩ rs).apex = apex := (specBuild_fields eqv _ rs).1
  obtain ⟨evs, hl, hi, _, _⟩ := Does.inner hR (by rw [hap]; exact ha) qname qtype (by rw [hap]; exact hq) ps
  exact ⟨evs, hl, fun e he => ⟨(hi e he).1, (hi e he).2.1⟩⟩

/-- … so, starting from an empty log, the response has TC set **iff** the transport is UDP and the
    answering logic ended with `Truncation`; in particular never over TCP. -/
theorem C04_tc_iff (eqv : Eqv) (apex : NameL.Name) (cls : Nat) (glue : GluePolicy) (rs : List Rec)
    (qname : WName) (qtype : Nat) (ha : Folded apex) (hq : apex <:+ fold qname) (tr : Transport) (w : Writer.State)
    (hnb : NoBad (handleNonAxfrQueryL (build eqv (Zone.new apex cls glue) rs) qname qtype tr ⟨w, []⟩).2.log) :
    (view (handleNonAxfrQueryL (build eqv (Zone.new apex cls glue) rs) qname qtype tr ⟨w, []⟩).2.log).tc = true ↔
      (tr = .udp ∧ (inner (build eqv (Zone.new apex cls glue) rs) qname qtype ⟨w, []⟩).1 = .err .truncation) := by
  obtain ⟨evs, hl, hnt⟩ := C04_tc_never_in_answer_phase eqv apex cls glue rs qname qtype ha hq ⟨w, []⟩
  obtain ⟨hlog, _⟩ := handle_log (build eqv (Zone.new apex cls glue) rs) qname qtype tr ⟨w, []⟩ hnb
  simp only [List.nil_append] at hl
  have htc : (view evs).tc = false := by
    have : ∀ (l : List Ev) (v : View), (∀ e ∈ l, ∀ b, e ≠ Ev.tc b) → (l.foldl View.step v).tc = v.tc := by
      intro l
      induction l with
      | nil => intro v _; rfl
      | cons e rest ih =>
        intro v h
        rw [List.foldl_cons, ih _ (fun x hx => h x (List.mem_cons_of_mem _ hx))]
        have he := h e List.mem_cons_self
        cases e with
        | add a =>
          simp only [View.step]
          split
          · cases a.sec <;> rfl
          · rfl
        | tc b => exact absurd rfl (he b)
        | aa b => rfl
        | rcode r => rfl
        | clear => rfl
        | bad => rfl
    exact this evs {} (fun e he => (hnt e he).1)
  rw [hlog, hl, view_tail]
  rcases hr : (inner (build eqv (Zone.new apex cls glue) rs) qname qtype ⟨w, []⟩).1 with u | e | _
  · simp [htc]
  · cases e with
    | servFail => simp [htc]
    | truncation =>
      cases tr <;> simp [htc]
  · simp [htc]

/-! ### T4: what `execute_allowing_truncation` can drop -/

/-- **only additional-section records are ever optional**: every call the answering logic issues
    inside `execute_allowing_truncation` adds to the additional section — answer and authority
    records (the CNAME chain, the final RRset, the NS RRset of a referral, the negative-caching
    SOA) are never wrapped, so a response with TC clear has them all. -/
theorem C04_optional_only_additional (eqv : Eqv) (apex : NameL.Name) (cls : Nat) (glue : GluePolicy) (rs : List Rec)
    (qname : WName) (qtype : Nat) (ha : Folded apex) (hq : apex <:+ fold qname) (ps : PS) :
    ∃ evs, (inner (build eqv (Zone.new apex cls glue) rs) qname qtype ps).2.log = ps.log ++ evs ∧
      ∀ a, Ev.add a ∈ evs → a.optional = true → a.sec = .additional := by
  have hR := Rel.reachable eqv apex cls glue rs
  have hap : (specBuild eqv ⟨apex, cls, glue, []⟩ rs).apex = apex := (specBuild_fields eqv _ rs).1
  obtain ⟨evs, hl, hi, _, _⟩ := Does.inner hR (by rw [hap]; exact ha) qname qtype (by rw [hap]; exact hq) ps
  exact ⟨evs, hl, fun a he ho => ((hi _ he).2.2 a rfl).1 ho⟩

/-- **mandatory glue is never wrapped**: in a referral (for *any* zone tree, delegation point and
    NS RRset, whatever the writer does) every logged call is the NS RRset (authority, mandatory) or
    an address RRset in the additional section that is optional *exactly when* its owner is not at
    or below the delegation point. Hence: a `Truncation` while adding in-bailiwick glue is never
    swallowed (it reaches `handle_non_axfr_query`: TC over UDP), and everything that can be
    silently omitted is an address of a name server outside the delegated zone. -/
theorem C04_glue_mandatory (z : Zone.Zone) (child : NameL.Name) (ns : Rrset) (ps : PS) :
    ∃ evs, (doReferral z child ns ps).2.log = ps.log ++ evs ∧
      ∀ a, Ev.add a ∈ evs →
        (a.sec = .authority ∧ a.optional = false) ∨
        (a.sec = .additional ∧
          a.optional = !NameL.eqOrSubdomainOf (fold a.owner) (fold (unfold child))) := by
  obtain ⟨evs, hl, hP, _⟩ := Logs.referral z child ns ps
  exact ⟨evs, hl, fun a he => hP _ he a rfl⟩

/-- a swallowed `Truncation` is the only way a call can fail without failing the response: when
    the answering logic returns `Ok`, every failed call in its log is an optional one that
    reported `Truncation` — stated for the primitive every call goes through -/
theorem C04_only_truncation_swallowed (ev : AddEv) (m : M HV) (ps : PS) (o : Option HV)
    (h : (PM.addCall ev m ps).1 = .ok o) :
    (∃ hv, o = some hv ∧ (m ps.w).1 = .ok hv) ∨
    (o = none ∧ ev.optional = true ∧ (m ps.w).1 = .err .Truncation) := by
  unfold PM.addCall at h
  rcases hm : m ps.w with ⟨(hv | e | _), w'⟩
  · rw [hm] at h; simp only [] at h
    exact Or.inl ⟨hv, by cases h; rfl, rfl⟩
  · rw [hm] at h; simp only [] at h
    split at h
    · next hc => cases h; exact Or.inr ⟨rfl, hc.1, by rw [hc.2]⟩
    · cases h
  · rw [hm] at h; cases h

/-! ### the corner of T3, exactly -/

/-- when the answering logic hits `Truncation` over UDP but `ServFail` over TCP (possible only
    because the TCP run got further: the failure lies beyond the UDP limit), the two responses are
    TC-with-empty-sections and SERVFAIL-with-empty-sections: different, both without data -/
theorem C04_T3_corner_shape (z : Zone.Zone) (qname : WName) (qtype : Nat) (pu pt : PS)
    (hu : NoBad (handleNonAxfrQueryL z qname qtype .udp pu).2.log)
    (ht : NoBad (handleNonAxfrQueryL z qname qtype .tcp pt).2.log)
    (ru : (inner z qname qtype pu).1 = .err .truncation) (rt : (inner z qname qtype pt).1 = .err .servFail) :
    (view (handleNonAxfrQueryL z qname qtype .udp pu).2.log).tc = true ∧
    (view (handleNonAxfrQueryL z qname qtype .tcp pt).2.log).rcode = SERVFAIL ∧
    (view (handleNonAxfrQueryL z qname qtype .udp pu).2.log).answer = [] ∧
    (view (handleNonAxfrQueryL z qname qtype .tcp pt).2.log).answer = [] := by
  have h1 := C04_truncation_udp z qname qtype pu hu ru
  have h2 := C04_servfail_clears z qname qtype .tcp pt ht rt
  exact ⟨h1.2.1, by rw [h2], h1.2.2.1, by rw [h2]⟩

/-! ### non-vacuity: a response that does not fit -/

def oct : Eqv := fun _ _ a b => a == b
def lz : NameL.Label := [122]
def soaRd : List UInt8 := [1,97,1,122,0, 1,98,1,122,0, 0,0,0,1, 0,0,0,2, 0,0,0,3, 0,0,0,4, 0,0,14,16]
def exZone : Zone.Zone := Zone.build oct (Zone.new [lz] 1 .narrow) [⟨[lz], 6, 1, 60, soaRd⟩]
/-- a writer with a 40-octet limit holding the question `x.z A` (21 octets): the SOA does not fit -/
def wSmall : Writer.State :=
  match Writer.new (Array.replicate 512 0) 40 with
  | .ok w => (Writer.addQuestion ⟨[[120], lz]⟩ 1 1 w).2
  | _ => default

example : (inner exZone ⟨[[120], lz]⟩ 1 ⟨wSmall, []⟩).1 = .err .truncation := by decide +kernel
example : (handleNonAxfrQueryL exZone ⟨[[120], lz]⟩ 1 .udp ⟨wSmall, []⟩).2.log
    = [.rcode 3, .aa true, .add ⟨.authority, ⟨[lz]⟩, 6, 1, 60, [soaRd], false, .err .Truncation⟩, .clear, .tc true] := by
  decide +kernel
example : view (handleNonAxfrQueryL exZone ⟨[[120], lz]⟩ 1 .udp ⟨wSmall, []⟩).2.log
    = { rcode := 3, aa := true, tc := true, answer := [], authority := [], additional := [] } := by decide +kernel
example : view (handleNonAxfrQueryL exZone ⟨[[120], lz]⟩ 1 .tcp ⟨wSmall, []⟩).2.log
    = { rcode := 2, aa := false, tc := false, answer := [], authority := [], additional := [] } := by decide +kernel
/-- the finished UDP message is 21 octets (header + question): within the limit of 40 -/
example : (match Writer.finish (handleNonAxfrQueryL exZone ⟨[[120], lz]⟩ 1 .udp ⟨wSmall, []⟩).2.w with
    | .ok (b, _) => b.size | _ => 0) = 21 := by decide +kernel

/-- non-vacuity of T3: a 512-octet writer and the same writer with 65 023 more octets of room
    (UDP vs TCP); the NXDOMAIN answer is complete with the larger room and fits the smaller one -/
def wUdp : Writer.State :=
  match Writer.new (Array.replicate 65535 0) 512 with
  | .ok w => (Writer.addQuestion ⟨[[120], lz]⟩ 1 1 w).2
  | _ => default

example : (inner exZone ⟨[[120], lz]⟩ 1 ⟨lift 65023 wUdp, []⟩).1 = .ok () ∧
    (inner exZone ⟨[[120], lz]⟩ 1 ⟨lift 65023 wUdp, []⟩).2.w.cursor ≤ wUdp.available ∧
    (inner exZone ⟨[[120], lz]⟩ 1 ⟨lift 65023 wUdp, []⟩).2.log
      = [.rcode 3, .aa true, .add ⟨.authority, ⟨[lz]⟩, 6, 1, 60, [soaRd], false, .ok ()⟩] := by
  decide +kernel

end QV.C04
