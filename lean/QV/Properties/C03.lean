/-
  C03 — Responses echo the request header and question.

  "A response carries the request's ID and opcode with QR set, copies RD only for opcode QUERY, and
   never sets RA or the reserved header bits. When the request has exactly one parseable question,
   the response repeats it octet-for-octet; requests with the QR bit set, shorter than 12 octets,
   or with more than one question get no response at all."

  Model: `QV.Server.handleMessage` (byte-exact model of src/server/mod.rs `Server::handle_message`,
  RRL off; tied to the source by the `srv` correspondence op on every run).
  Spec:  `QV.Spec.Server.specScanWith` (the scan in message order) and `specErrorResponse`.

  Shape: refinement. The theorems quantify over every configuration (payload size ≥ 512 — the
  setter refuses less —, any catalog, any keys), both transports, every response-buffer length the
  API admits, every clock value and every request octet string of at most `usize::MAX` octets.

  Proved in full (`C03 : C03_full`), for every request, catalog, key set, clock value, transport
  and buffer:
  * `C03_no_response_iff` — no response ⇔ shorter than 12 octets ∨ QR set ∨ QDCOUNT > 1;
  * `C03_echo` — *every* response (error responses, answers from a loaded zone, TSIG-processed
    requests alike) carries the request's ID and opcode, QR = 1, RD copied for QUERY only, RA and
    Z/AD/CD clear, QDCOUNT = 1 exactly when the scan decoded a question, and that question's
    uncompressed encoding as its question section. Method: the header copy and `add_question` write
    these octets (view lemmas), and every writer operation issued afterwards — the section scans,
    OPT/TSIG processing, the whole answering phase of src/server/query.rs, `finish` — is proved to
    *frame* them (`Proofs/Frame.lean`, `Proofs/FrameServer.lean`, `Proofs/ServerEcho.lean`);
  * `C03_question_octets` — if the request's QNAME is not compressed, the response's question
    section is the request's, octet for octet (case preserved).
  Additionally `C03_error_response_exact`: for the verdicts the scan decides alone the response
  exists and is exactly `specErrorResponse`.
  Scope: response rate limiting is off in this model (`rrl = None`); with RRL a response may also be
  dropped or truncated (C26–C28), which C03 does not forbid.
-/
import QV.Proofs.ServerEcho

namespace QV.C03
open QV QV.Spec.Server QV.ServerScan

/-- the header of response `b` echoes request `req` -/
structure HeaderEcho (req b : Bytes) : Prop where
  id : hdr b 0 = hdr req 0
  qr : hdr b 2 / 32768 % 2 = 1
  opcode : hdr b 2 / 2048 % 16 = hdr req 2 / 2048 % 16
  /-- RD is copied for opcode QUERY only -/
  rd : hdr b 2 / 256 % 2 = (if hdr req 2 / 2048 % 16 = 0 then hdr req 2 / 256 % 2 else 0)
  ra : hdr b 2 / 128 % 2 = 0
  /-- Z, AD, CD -/
  z : hdr b 2 / 16 % 8 = 0

/-- the question section of response `b` is the (uncompressed) encoding of question `q` -/
def QuestionEcho (q : Option Spec.DQuestion) (b : Bytes) : Prop :=
  match q with
  | none => hdr b 4 = 0
  | some q => hdr b 4 = 1 ∧
      (b.toList.drop 12).take (q.qname.length + 4) = q.qname ++ u16be q.qtype ++ u16be q.qclass

/-- C03 at full strength -/
def C03_full : Prop :=
  ∀ (cfg : Server.Cfg) (tr : Server.Transport) (now bufLen : Nat) (req : Bytes),
    minBuf tr cfg.payload ≤ bufLen → 512 ≤ cfg.payload → req.size ≤ Rdata.USIZE_MAX →
    (Server.handleMessage cfg tr now bufLen req = .ok none ↔
      (specScanWith (catKind cfg) cfg.payload req).respond = false) ∧
    ∀ b, Server.handleMessage cfg tr now bufLen req = .ok (some b) →
      HeaderEcho req b ∧ QuestionEcho (specScanWith (catKind cfg) cfg.payload req).question b

/-! ### no response: shorter than 12 octets, QR set, more than one question -/

/-- the spec's "no response" is exactly the three conditions of the property -/
theorem C03_spec_no_response (lookup : List UInt8 → Nat → Option ZoneKind) (p : Nat) (req : Bytes) :
    (specScanWith lookup p req).respond = false ↔
      (req.size < 12 ∨ (req.getD 2 0).toNat ≥ 128 ∨ hdr req 4 > 1) := by
  rw [specScanWith_eq]
  by_cases h12 : req.size < 12
  · simp only [h12, if_true, true_or]
  · by_cases hqr : (req.getD 2 0).toNat ≥ 128
    · simp only [h12, hqr, if_false, if_true, true_or, or_true]
    · simp only [h12, hqr, if_false, false_or]
      unfold specBody
      by_cases hgt : hdr req 4 > 1
      · simp [hgt]
      · simp only [hgt, if_false, iff_false]
        unfold specTail
        repeat' split
        all_goals simp

/-- **Theorem (all requests).** `handle_message` sends no response exactly when the request is
    shorter than 12 octets, has QR set, or has QDCOUNT > 1 — over both transports, for every
    configuration, catalog and buffer. -/
theorem C03_no_response_iff (cfg : Server.Cfg) (tr : Server.Transport) (now bufLen : Nat) (req : Bytes)
    (hbuf : minBuf tr cfg.payload ≤ bufLen) (hpay : 512 ≤ cfg.payload) :
    Server.handleMessage cfg tr now bufLen req = .ok none ↔
      (req.size < 12 ∨ (req.getD 2 0).toNat ≥ 128 ∨ hdr req 4 > 1) := by
  rw [handleMessage_none_iff cfg tr now bufLen req hbuf hpay (catKind cfg), C03_spec_no_response]

/-! ### the echo, for every response -/

/-- **Theorem (all responses).** Every response `handle_message` returns echoes the request's ID
    and opcode with QR set, copies RD for opcode QUERY only, has RA and Z/AD/CD clear, and repeats
    the question the scan decoded (QDCOUNT 0 and no question when it decoded none). -/
theorem C03_echo (cfg : Server.Cfg) (tr : Server.Transport) (now bufLen : Nat) (req : Bytes)
    (hbuf : minBuf tr cfg.payload ≤ bufLen) (hpay : 512 ≤ cfg.payload) (b : Bytes)
    (h : Server.handleMessage cfg tr now bufLen req = .ok (some b)) :
    HeaderEcho req b ∧ QuestionEcho (specScanWith (catKind cfg) cfg.payload req).question b := by
  obtain ⟨e1, e2, e3, e4, e5, e6, e7, e8⟩ := response_echo cfg tr now bufLen req hbuf hpay b h
  refine ⟨⟨e1, e2, e3, e4, e5, e6⟩, ?_⟩
  unfold QuestionEcho
  cases hq : (specScanWith (catKind cfg) cfg.payload req).question with
  | none => rw [hq] at e7; simpa using e7
  | some q =>
    rw [hq] at e7 e8
    refine ⟨by simpa using e7, ?_⟩
    have hl : (qOctets (some q)).length = q.qname.length + 4 := by simp [qOctets, Writer.u16be_length]
    rw [hl] at e8
    rw [e8]
    simp [qOctets]

/-- **C03.** The property at full strength. -/
theorem C03 : C03_full := by
  intro cfg tr now bufLen req hbuf hpay _
  refine ⟨?_, fun b hb => C03_echo cfg tr now bufLen req hbuf hpay b hb⟩
  rw [handleMessage_none_iff cfg tr now bufLen req hbuf hpay (catKind cfg)]

/-- **Corollary (octet for octet).** If the request's QNAME is not compressed (the octets at offset
    12 are the decoded QNAME), the response's question section is octet-for-octet the request's:
    QNAME with its case preserved, QTYPE, QCLASS. -/
theorem C03_question_octets (cfg : Server.Cfg) (tr : Server.Transport) (now bufLen : Nat) (req : Bytes)
    (hbuf : minBuf tr cfg.payload ≤ bufLen) (hpay : 512 ≤ cfg.payload) (b : Bytes)
    (h : Server.handleMessage cfg tr now bufLen req = .ok (some b))
    (q : Spec.DQuestion) (hq : (specScanWith (catKind cfg) cfg.payload req).question = some q)
    (hlit : (req.extract 12 (12 + q.qname.length)).toList = q.qname) :
    (b.toList.drop 12).take (q.qname.length + 4) = (req.extract 12 (12 + q.qname.length + 4)).toList := by
  obtain ⟨_, hqe⟩ := C03_echo cfg tr now bufLen req hbuf hpay b h
  rw [hq] at hqe
  rw [hqe.2]
  have hsq : ∃ nx, Spec.specQuestionAt req 12 = some (q.qname, q.qtype, q.qclass, nx) := by
    rw [specScanWith_eq] at hq
    by_cases h12 : req.size < 12
    · simp only [h12, if_true] at hq; cases hq
    · by_cases hqr : (req.getD 2 0).toNat ≥ 128
      · simp only [h12, hqr, if_false, if_true] at hq; cases hq
      · simp only [h12, hqr, if_false] at hq
        exact specBody_question _ _ _ q hq
  obtain ⟨nx, hsq⟩ := hsq
  exact question_octets_eq_request req q.qname q.qtype q.qclass nx hsq hlit

/-- for the verdicts the scan decides alone the response exists and is exactly the prescribed one -/
theorem C03_error_response_exact (cfg : Server.Cfg) (tr : Server.Transport) (now bufLen : Nat) (req : Bytes)
    (hbuf : minBuf tr cfg.payload ≤ bufLen) (hpay : 512 ≤ cfg.payload) (hreq : req.size ≤ Rdata.USIZE_MAX)
    (hr : (specScanWith (catKind cfg) cfg.payload req).respond = true)
    (hv : noDataV (specScanWith (catKind cfg) cfg.payload req).verdict = true) :
    ∃ b, Server.handleMessage cfg tr now bufLen req = .ok (some b) ∧
      b.toList = specErrorResponse req cfg.payload (specScanWith (catKind cfg) cfg.payload req) :=
  server_error_response cfg tr now bufLen req hbuf hpay hreq hr hv

/-! ### non-vacuity: concrete requests -/

/-- `. IN NS`, RD set, opcode QUERY; the catalog is empty ⇒ REFUSED -/
def exQuery : Bytes := #[0x12, 0x34, 0x01, 0x00, 0, 1, 0, 0, 0, 0, 0, 0, 0, 0, 2, 0, 1]
def exCfg : Server.Cfg := { payload := 1232, zones := [] }

example : (specScanWith (catKind exCfg) 1232 exQuery).respond = true ∧
    (specScanWith (catKind exCfg) 1232 exQuery).verdict = .refused := by decide +kernel

/-- the theorem applies, and the response it prescribes is the expected one: same ID, `0x81`
    (QR, opcode 0, RD), RCODE 5, the question repeated -/
example : ∃ b, Server.handleMessage exCfg .udp 0 65535 exQuery = .ok (some b) ∧
    b.toList = [0x12, 0x34, 0x81, 0x05, 0, 1, 0, 0, 0, 0, 0, 0, 0, 0, 2, 0, 1] := by
  obtain ⟨b, hb, hl⟩ := server_error_response exCfg .udp 0 65535 exQuery (by decide) (by decide) (by decide)
    (by decide +kernel) (by decide +kernel)
  exact ⟨b, hb, by rw [hl]; decide +kernel⟩

/-- an opcode other than QUERY (here 2, STATUS) with RD set: RD is not copied -/
def exStatus : Bytes := #[0, 7, 0x11, 0x00, 0, 0, 0, 0, 0, 0, 0, 0]
example : specErrorResponse exStatus 1232 (specScanWith (catKind exCfg) 1232 exStatus) =
    [0, 7, 0x90, 0x04, 0, 0, 0, 0, 0, 0, 0, 0] := by decide +kernel

/-- the three no-response conditions are satisfiable and separate -/
example : Server.handleMessage exCfg .tcp 0 65535 #[1, 2, 3] = .ok none :=
  (C03_no_response_iff exCfg .tcp 0 65535 _ (by decide) (by decide)).mpr (Or.inl (by decide))
example : Server.handleMessage exCfg .udp 0 1232 #[0, 7, 0x80, 0, 0, 1, 0, 0, 0, 0, 0, 0, 0, 0, 2, 0, 1] = .ok none :=
  (C03_no_response_iff exCfg .udp 0 1232 _ (by decide) (by decide)).mpr (Or.inr (Or.inl (by decide)))
example : Server.handleMessage exCfg .udp 0 1232 #[0, 7, 0, 0, 0, 2, 0, 0, 0, 0, 0, 0] = .ok none :=
  (C03_no_response_iff exCfg .udp 0 1232 _ (by decide) (by decide)).mpr (Or.inr (Or.inr (by decide)))
example : ¬ (exQuery.size < 12 ∨ (exQuery.getD 2 0).toNat ≥ 128 ∨ hdr exQuery 4 > 1) := by decide

/-- a mixed-case, uncompressed QNAME `wWw.A.`: the hypotheses of the octet-for-octet corollary hold -/
def exMixed : Bytes := #[0, 9, 0, 0, 0, 1, 0, 0, 0, 0, 0, 0, 3, 119, 87, 119, 1, 65, 0, 0, 1, 0, 1]
example : (specScanWith (catKind exCfg) 1232 exMixed).question = some ⟨[3, 119, 87, 119, 1, 65, 0], 1, 1⟩ ∧
    (exMixed.extract 12 (12 + 7)).toList = [3, 119, 87, 119, 1, 65, 0] := by decide +kernel

end QV.C03
