/-
  C13 — Name compression only emits valid, permitted pointers.

  "Every compression pointer the writer emits points strictly backwards to the first octet of a
   label of a name written earlier in the message. Pointers are emitted only for owner names,
   the QNAME and names inside RDATA of RFC 1035 types, never inside SRV, Chaosnet A or
   unknown-type RDATA (RFC 3597 §4), and never when compression is disabled."

  The model logs every pointer it emits in the ghost field `gPtrs` (position, target, the kind
  of name being written, the compression mode) — all pointer emissions go through
  `pushPointer` — and the label positions of every literally written name in `gLabels`.
-/
import QV.Proofs.Writer

namespace QV.C13
open QV QV.Writer

/-- **Where pointers are emitted — for all operation sequences and all hints, valid or not.**
    Every pointer in the log was emitted while writing the QNAME, an owner name or a
    `CompressibleName` component, and not in `Disabled` mode; in particular never inside an
    `UncompressibleName` or `Other` component (SRV, Chaosnet A, unknown types). -/
theorem C13_pointers_only_where_permitted (buf : Bytes) (limit : Nat) (s : State)
    (h : Writer.new buf limit = .ok s) (ops : List Op) :
    ∀ e ∈ (run { w := s } ops).1.w.gPtrs,
      e.mode ≠ .disabled ∧ (e.ctx = .qname ∨ e.ctx = .owner ∨ e.ctx = .rdataCompressible) := by
  apply run_logOK
  unfold Writer.new at h
  dsimp only at h
  split at h
  · cases h
  · have := Out.ok.inj h; subst this
    intro e he; cases he

/-- the OPT and TSIG records appended by `finish` obey the same rule -/
theorem C13_finish_pointers_only_where_permitted (macFn : Tsig → List UInt8 → List UInt8)
    (s : State) (h : LogOK s) : LogOK (finishWithMac macFn s).2 :=
  finishWithMac_logOK macFn s h

/-! ## which RDATA may be compressed (tie to the source: the table is *generated* from
    `Rdata::components` and the `components_as_*` constructors on every run) -/

/-- A `CompressibleName` component exists only for the RFC 1035 §3.3 types NS MD MF CNAME MB MG
    MR PTR SOA MINFO MX (RFC 3597 §4), in every class. Together with
    `C13_pointers_only_where_permitted` (pointers in RDATA are emitted only while writing a
    `CompressibleName` component): no pointer is ever emitted inside RDATA of any other type. -/
theorem C13_compressible_components_only_rfc1035 (cls ty : Nat) (ts : List CompType)
    (h : componentTypes cls ty = some ts) (hc : CompType.compressibleName ∈ ts) :
    ty ∈ [2, 3, 4, 5, 7, 8, 9, 12, 6, 14, 15] :=
  componentTypes_compressible cls ty ts h hc

/-- the dispatch is total (the generated tables are well formed) -/
theorem C13_components_total (cls ty : Nat) : ∃ ts, componentTypes cls ty = some ts :=
  componentTypes_total cls ty

/-- SRV (IN) and Chaosnet A: their embedded names are `UncompressibleName` components -/
theorem C13_srv_and_ch_a_uncompressible :
    componentTypes 1 33 = some [.fixedLen 6, .uncompressibleName] ∧
    componentTypes 3 1 = some [.uncompressibleName] :=
  ⟨componentTypes_srv_in, componentTypes_ch_a⟩

/-- unknown types (no arm mentions them) have no name components at all -/
theorem C13_unknown_types_verbatim (cls ty : Nat)
    (h : ∀ a ∈ Gen.rdataComponentsArms, a.1.contains ty = false) : componentTypes cls ty = some [] :=
  componentTypes_unknown cls ty h

example : componentTypes 1 65280 = some [] := by decide
example : componentTypes 1 2 = some [.compressibleName] := by decide

end QV.C13
