/-
  C13 — Name compression only emits valid, permitted pointers.

  "Every compression pointer the writer emits points strictly backwards to the first octet of a
   label of a name written earlier in the message. Pointers are emitted only for owner names,
   the QNAME and names inside RDATA of RFC 1035 types, never inside SRV, Chaosnet A or
   unknown-type RDATA (RFC 3597 §4), and never when compression is disabled."

  The model logs every pointer it emits in the ghost field `gPtrs` (position, target, the kind
  of name being written, the compression mode) — all pointer emissions go through
  `pushPointer` — and the label positions of every literally written name in `gLabels`.
-/
import QV.Proofs.Writer

namespace QV.C13
open QV QV.Writer

/-- **Where pointers are emitted — for all operation sequences and all hints, valid or not.**
    Every pointer in the log was emitted while writing the QNAME, an owner name or a
    `CompressibleName` component, and not in `Disabled` mode; in particular never inside an
    `UncompressibleName` or `Other` component (SRV, Chaosnet A, unknown types). -/
theorem C13_pointers_only_where_permitted (buf : Bytes) (limit : Nat) (s : State)
    (h : Writer.new buf limit = .ok s) (ops : List Op) :
    ∀ e ∈ (run { w := s } ops).1.w.gPtrs,
      e.mode ≠ .disabled ∧ (e.ctx = .qname ∨ e.ctx = .owner ∨ e.ctx = .rdataCompressible) := by
  apply run_logOK
  unfold Writer.new at h
  dsimp only at h
  split at h
  · cases h
  · have := Out.ok.inj h; subst this
    intro e he; cases he

/-- the OPT and TSIG records appended by `finish` obey the same rule -/
theorem C13_finish_pointers_only_where_permitted (macFn : Tsig → List UInt8 → List UInt8)
    (s : State) (h : LogOK s) : LogOK (finishWithMac macFn s).2 :=
  finishWithMac_logOK macFn s h

end QV.C13
