/-
  C13 — Name compression only emits valid, permitted pointers.

  "Every compression pointer the writer emits points strictly backwards to the first octet of a
   label of a name written earlier in the message. Pointers are emitted only for owner names,
   the QNAME and names inside RDATA of RFC 1035 types, never inside SRV, Chaosnet A or
   unknown-type RDATA (RFC 3597 §4), and never when compression is disabled."

  The model logs every pointer it emits in the ghost field `gPtrs` (position, target, the kind
  of name being written, the compression mode) — all pointer emissions go through
  `pushPointer` — and the label positions of every literally written name in `gLabels`.
-/
import QV.Proofs.WriterSession
import QV.Proofs.NameDecode
import QV.Proofs.NameRoundTrip
import QV.Proofs.FinishTsigOwner
import QV.Proofs.WriterSegment
import QV.Proofs.WriterScratch

namespace QV.C13
open QV QV.Writer QV.ServerSafety

/-! ## the property, in full

  `C13_full` = for all operation sequences respecting the hint contract and all modes, every
  pointer in the log: (1) target < position, (2) 0 < target ≤ 0x3fff, (3) the target is a
  recorded label start (first octet of a label of a name written earlier), (4) emitted only for
  QNAME / owner / `CompressibleName` components and not in `Disabled` mode, (5) the name stored
  at the target is the replaced suffix (exactly in `CasePreserving` mode, up to ASCII case in
  `Standard` mode).  (1)–(4) are `C13_pointer_log_sound` + `C13_pointers_only_where_permitted`
  below; (5) is `C13_written_names_denote` (every name-writing routine returns an anchor that
  *denotes* the name it was given: the name stored at that position — read by following labels and
  pointers the way the writer itself reads prior names — matches the given name label by
  label) together with `C13_scan_correct`.
  That the *independent* decoder `specDecodeName` reads the same labels from those positions is
  `C13_targets_decode` / `C13_recorded_label_starts_decode`: `NameAt` follows pointers with "target
  < pointer position" (what the writer's own scan needs), the RFC relation `Decodes` demands
  "target < start of the chunk that contains the pointer"; the writer only emits targets below the
  start of the name it is writing, and the invariant carries this (`NameAtC`, `WInv.clabs`): every
  recorded label start begins a name of the RFC relation of at most 255 octets.
  Hence `C13_holds : C13_full`. -/

def C13_full : Prop :=
  ∀ (buf : Bytes) (limit : Nat) (s : State) (ops : List Op),
    Writer.new buf limit = .ok s → Respects { w := s } ops →
    let s' := (run { w := s } ops).1.w
    (∀ e ∈ s'.gPtrs, e.target < e.pos ∧ 0 < e.target ∧ e.target ≤ 0x3fff ∧ e.target ∈ s'.gLabels ∧
      e.mode ≠ .disabled ∧ (e.ctx = .qname ∨ e.ctx = .owner ∨ e.ctx = .rdataCompressible) ∧
      ∃ w n k, Spec.specDecodeName (s'.octets.extract 0 s'.cursor) e.target = some (w, n, k))

/-- **Where pointers are emitted — for all operation sequences and all hints, valid or not.**
    Every pointer in the log was emitted while writing the QNAME, an owner name or a
    `CompressibleName` component, and not in `Disabled` mode; in particular never inside an
    `UncompressibleName` or `Other` component (SRV, Chaosnet A, unknown types). -/
theorem C13_pointers_only_where_permitted (buf : Bytes) (limit : Nat) (s : State)
    (h : Writer.new buf limit = .ok s) (ops : List Op) :
    ∀ e ∈ (run { w := s } ops).1.w.gPtrs,
      e.mode ≠ .disabled ∧ (e.ctx = .qname ∨ e.ctx = .owner ∨ e.ctx = .rdataCompressible) := by
  apply run_logOK
  unfold Writer.new at h
  dsimp only at h
  split at h
  · cases h
  · have := Out.ok.inj h; subst this
    intro e he; cases he

/-- the OPT and TSIG records appended by `finish` obey the same rule -/
theorem C13_finish_pointers_only_where_permitted (macFn : Tsig → List UInt8 → List UInt8)
    (s : State) (h : LogOK s) : LogOK (finishWithMac macFn s).2 :=
  finishWithMac_logOK macFn s h

/-! ## the targets of the pointers -/

/-- **For all operation sequences that respect the hint contract, in all modes**: every pointer
    the model has emitted points strictly backwards (`target < pos`), lies below the cursor, has
    a target in `1..=POINTER_MAX` that is a *recorded label start* (`gLabels`: the first octet of
    a label of a name written literally earlier in the message), and a name is stored at the
    target (`StoredAt`). -/
theorem C13_pointer_log_sound (buf : Bytes) (limit : Nat) (s : State)
    (h : Writer.new buf limit = .ok s) (ops : List Op) (hr : Respects { w := s } ops) :
    PtrLogOK (run { w := s } ops).1.w :=
  (run_I _ ops (new_i buf limit s h) hr).2.log

/-- the same after `finish` (OPT owner, TSIG owner) -/
theorem C13_pointer_log_sound_finish (s : State) (hI : I s) (macFn : Tsig → List UInt8 → List UInt8)
    (hmac : MacLenOK macFn) : ∃ r s', finishWithMac macFn s = (.ok r, s') ∧ PtrLogOK s' :=
  finishWithMac_ok macFn hmac s hI

/-! ## the independent decoder succeeds at every target -/

/-- **At every recorded label start** of a valid writer state — in particular at every pointer
    target and at every anchor — the independent RFC 1035 §4.1.4 decoder `specDecodeName`, run on
    the message written so far, succeeds and reads exactly the labels stored there (a name of at
    most 255 octets, every pointer going below the start of the chunk it ends). -/
theorem C13_recorded_label_starts_decode (s : State) (hI : I s) (g : Nat) (hg : g ∈ s.gLabels) :
    ∃ ls k, NameAtC (GL s) s.octets s.cursor g g ls ∧
      Spec.specDecodeName (s.octets.extract 0 s.cursor) g = some (wireOf ls, ls.length + 1, k) :=
  cstored_specDecodeName (hI.winv.clabs g hg) (Nat.le_trans hI.winv.cur_av hI.winv.av_size)

/-- … so it succeeds at the target of every pointer emitted -/
theorem C13_targets_decode (s : State) (hI : I s) (e : PtrEv) (he : e ∈ s.gPtrs) :
    ∃ w n k, Spec.specDecodeName (s.octets.extract 0 s.cursor) e.target = some (w, n, k) := by
  obtain ⟨_, _, _, _, hmem, _⟩ := hI.log e he
  obtain ⟨ls, k, _, hd⟩ := C13_recorded_label_starts_decode s hI e.target hmem
  exact ⟨_, _, _, hd⟩

/-- **C13 holds**: for all sequences of calls that respect the hint contract, in all modes. -/
theorem C13_holds : C13_full := by
  intro buf limit s ops hnew hr s' e he
  have hI : I s' := (run_I _ ops (new_i buf limit s hnew) hr).2
  obtain ⟨h1, _, h3, h4, h5, _⟩ := hI.log e he
  have hperm := C13_pointers_only_where_permitted buf limit s hnew ops e he
  exact ⟨h1, h3, h4, h5, hperm.1, hperm.2, C13_targets_decode s' hI e he⟩

/-! non-vacuity: a session that respects the contract and emits two pointers (owner = QNAME,
    CNAME target sharing a suffix with it) -/

def nvOps : List Op := [.addQuestion ⟨[[119, 119, 119], [97]]⟩ 1 1,
  .addRr .answer (.direct .none) ⟨[[119, 119, 119], [97]]⟩ 5 1 60 [1, 98, 1, 97, 0] none]

def nvS : State := match Writer.new (Array.replicate 64 0) 64 with | .ok s => s | _ => default

example : Writer.new (Array.replicate 64 0) 64 = .ok nvS ∧ Respects { w := nvS } nvOps ∧
    ((run { w := nvS } nvOps).1.w.gPtrs.map fun e => (e.pos, e.target)) = [(37, 16), (23, 12)] :=
  ⟨rfl, ⟨(by decide : WName.WF ⟨[[119, 119, 119], [97]]⟩),
    ⟨(by decide : WName.WF ⟨[[119, 119, 119], [97]]⟩), trivial⟩, trivial⟩, by decide +kernel⟩

/-- **The heuristic scan is correct** (`write_compressed_unhinted_name`): with valid prior names
    it is computed without a panic; if it decides "the first `k` labels, then a pointer to `pp`",
    then `k` is a proper prefix of the labels, `pp` is a recorded real label start in pointer
    range, and the name stored at `pp` has exactly the remaining labels, matching label by label
    (octet-exact in `CasePreserving` mode, ignoring ASCII case otherwise). -/
theorem C13_scan_correct {G : Nat → Prop} {oct : Bytes} {cur : Nat} {mode : CMode}
    {a b : Option Prior} {n : WName} (ha : ∀ p, a = some p → PriorOK G oct cur p)
    (hb : ∀ p, b = some p → PriorOK G oct cur p) :
    ∃ r, compressDecision oct mode a b n = .ok r ∧
      ∀ m, r = some m → m.startColumn < n.labels.length ∧ 0 < m.priorPointer ∧
        m.priorPointer ≤ Gen.POINTER_MAX ∧
        ∃ ls, NameAt G oct cur m.priorPointer ls ∧
          labelsMatch mode (n.labels.drop m.startColumn) ls = true :=
  compressDecision_ok ha hb

/-- **Every name the writer writes denotes the name it was given** — hinted or not, compressed
    or not: from a valid state, with a well-formed name and a valid hint, `write_hinted_name`
    does not panic; on success the state is valid again and the anchor returned (position, label
    count) *denotes* the name: the name stored there matches it label by label up to ASCII case
    (`Den`); the pointer log stays sound. -/
theorem C13_written_names_denote (hint : Hint) (n : WName) (s : State) (h : WInv s) (hn : n.WF)
    (hh : Writer.HintOK s hint n) : NameSpec s n (writeHintedName hint n s) :=
  writeHintedName_spec hint n s h hn hh

/-- **The round trip of one written name, through the independent decoder**, in every compression
    mode: whatever `write_hinted_name` wrote for the name `n` at the cursor (all labels; some labels
    and a pointer; a bare pointer — hinted or found by the scan), `specDecodeName`, run on the message
    written so far from that position, yields a name with `n`'s number of labels that equals `n` up
    to ASCII case, and octet for octet in `CasePreserving` and `Disabled` mode. -/
theorem C13_written_name_round_trip (hint : Hint) (n : WName) (s : State) (h : WInv s) (hn : n.WF)
    (hh : Writer.HintOK s hint n) (p : Option Prior) (hok : (writeHintedName hint n s).1 = .ok p) :
    ∃ w k, Spec.specDecodeName
        ((writeHintedName hint n s).2.octets.extract 0 (writeHintedName hint n s).2.cursor) s.cursor
          = some (w, n.len, k) ∧
      w.map lowerU8 = n.wire.map lowerU8 ∧ (s.mode ≠ .standard → w = n.wire) :=
  writeHintedName_round_trip hint n s h hn hh p hok

/-- … and of a name written without a hint (the QNAME; every `CompressibleName` inside RDATA) -/
theorem C13_unhinted_name_round_trip (n : WName) (s : State) (h : WInv s) (hn : n.WF) (p : Option Prior)
    (hok : (writeUnhintedName n s).1 = .ok p) :
    ∃ w k, Spec.specDecodeName ((writeUnhintedName n s).2.octets.extract 0 (writeUnhintedName n s).2.cursor)
        s.cursor = some (w, n.len, k) ∧
      w.map lowerU8 = n.wire.map lowerU8 ∧ (s.mode ≠ .standard → w = n.wire) :=
  writeUnhintedName_round_trip n s h hn p hok

/-- the same for the owner of any record (`add_rr`), on any message that agrees with the buffer below
    the cursor — and in particular for **the owner of the TSIG record `finish` appends**: on the
    finished message it decodes to the key name (compressed against earlier names or not) -/
theorem C13_tsig_owner_decodes (macFn : Tsig → List UInt8 → List UInt8) (hmac : MacLenOK macFn)
    (s : State) (hI : I s) (ts : Tsig) (hts : s.tsig = some ts)
    (m : Bytes) (mac : Option (List UInt8)) (hf : finish s macFn = .ok (m, mac)) :
    ∃ w k, Spec.specDecodeName m (finishPrefix s ++ optEnc s.edns).length = some (w, ts.rr.keyName.len, k) ∧
      (finishPrefix s ++ optEnc s.edns).length + k + 10 ≤ m.size ∧
      w.map lowerU8 = ts.rr.keyName.wire.map lowerU8 ∧ (s.mode ≠ .standard → w = ts.rr.keyName.wire) :=
  finish_tsig_owner_decodes macFn hmac s hI ts hts m mac hf

/-! ## which RDATA may be compressed (tie to the source: the table is *generated* from
    `Rdata::components` and the `components_as_*` constructors on every run) -/

/-- A `CompressibleName` component exists only for the RFC 1035 §3.3 types NS MD MF CNAME MB MG
    MR PTR SOA MINFO MX (RFC 3597 §4), in every class. Together with
    `C13_pointers_only_where_permitted` (pointers in RDATA are emitted only while writing a
    `CompressibleName` component): no pointer is ever emitted inside RDATA of any other type. -/
theorem C13_compressible_components_only_rfc1035 (cls ty : Nat) (ts : List CompType)
    (h : componentTypes cls ty = some ts) (hc : CompType.compressibleName ∈ ts) :
    ty ∈ [2, 3, 4, 5, 7, 8, 9, 12, 6, 14, 15] :=
  componentTypes_compressible cls ty ts h hc

/-- the dispatch is total (the generated tables are well formed) -/
theorem C13_components_total (cls ty : Nat) : ∃ ts, componentTypes cls ty = some ts :=
  componentTypes_total cls ty

/-- SRV (IN) and Chaosnet A: their embedded names are `UncompressibleName` components -/
theorem C13_srv_and_ch_a_uncompressible :
    componentTypes 1 33 = some [.fixedLen 6, .uncompressibleName] ∧
    componentTypes 3 1 = some [.uncompressibleName] :=
  ⟨componentTypes_srv_in, componentTypes_ch_a⟩

/-- unknown types (no arm mentions them) have no name components at all -/
theorem C13_unknown_types_verbatim (cls ty : Nat)
    (h : ∀ a ∈ Gen.rdataComponentsArms, a.1.contains ty = false) : componentTypes cls ty = some [] :=
  componentTypes_unknown cls ty h

/-! ## the scan does not read scratch space

  `C13_scan_reads_only_below_cursor`: "octets at or above the cursor are scratch space that no later
  read depends on" (docstring of `Same`), for the one reader of the buffer. With valid prior names
  (`PriorOK`: each anchor points at a name stored below the cursor — what `WInv` gives for `qname`,
  `most_recent_owner`, `most_recent_name_in_rdata`), `compress_decision` computes the same decision
  on two buffers of equal size that agree below the cursor: it reads only length octets, label
  octets and pointers of stored names. (`QV.Proofs.WriterScratch`, where the header calls `set_aa`,
  `set_rcode` are also shown independent of scratch space: `scratch_setAa`, `scratch_setRcode`, and
  the scan lemma also with a two-octet hole below the cursor that no name overlaps — the reserved
  RDLENGTH octets: `compressDecision_congr_gap`. The
  same statement for whole `add_*_rr` / `add_*_rrset` calls — all writes threaded through, including
  the two RDLENGTH octets that are reserved before and written after the RDATA — is not proved.) -/
theorem C13_scan_reads_only_below_cursor {G : Nat → Prop} {oct oct' : Bytes} {cur : Nat} {mode : CMode}
    {a b : Option Prior} {n : WName}
    (ha : ∀ p, a = some p → PriorOK G oct cur p) (hb : ∀ p, b = some p → PriorOK G oct cur p)
    (hag : ∀ i, i < cur → oct'[i]? = oct[i]?) (hsz : oct'.size = oct.size) :
    compressDecision oct' mode a b n = compressDecision oct mode a b n :=
  compressDecision_congr ha hb hag hsz

/-! ## the audit of the independent decoder

  `C13_decoder_pointer_audit_partial`: C13 in the vocabulary of the *specification's own decoder*,
  not of the writer's pointer log. For every session of typed calls without `clear_rrs` (all
  compression modes and mode changes, templates, EDNS, TSIG; limits of at most 65535): the message
  `finish` returns decodes, and `Spec.Message.auditPointers` — run on the name occurrences the
  decoder finds, with the mode each item was written in — returns `ok`: every pointer points
  strictly backwards, to at most 0x3fff, to the first octet of a label of a name that occurs
  earlier in the message; none inside RDATA that must not be compressed (RFC 3597 §4) and none in
  an item written in `Disabled` mode. (`QV.Proofs.WriterAudit`; restriction `_partial`: the
  message finished at the end of a session that contains `clear_rrs` is covered by
  `QV.C12.C12_full_holds`, where the audit is one clause of `checkSession`, not restated here.) -/
theorem C13_decoder_pointer_audit_partial (macFn : Tsig → List UInt8 → List UInt8) (hmac : MacLenOK macFn)
    (buf : Bytes) (limit : Nat) (s0 : State) (hnew : Writer.new buf limit = .ok s0) (hlim : limit ≤ 65535)
    (mode : CMode) (ops : List Op) (ht : ∀ op ∈ ops, op.Typed) (hb : ∀ op ∈ ops, ApiBounds op)
    (hr : Respects { w := { s0 with mode := mode } } ops) (hv : ∀ v, Op.setLimit v ∈ ops → v ≤ 65535)
    (hno : ∀ op ∈ ops, op ≠ .clearRrs ∧ NonEmptySet op) :
    ∃ (m : Bytes) (mac : Option (List UInt8)) (d : Spec.Message.Decoded) (aF : Spec.Message.AState),
      finish (run { w := { s0 with mode := mode } } ops).1.w macFn = .ok (m, mac) ∧
      Spec.Message.specDecodeMsg m = some d ∧
      aF.mode = Driver.toSpecMode (run { w := { s0 with mode := mode } } ops).1.w.mode ∧
      Spec.Message.auditPointers d aF.itemModes.reverse aF.mode = .ok () := by
  obtain ⟨m, mac, d, aF, hf, hd, _, _, _, _, _, hmode, haud, _⟩ :=
    segment_from_new macFn hmac buf limit s0 hnew hlim mode ops ht hb hr hv hno none
  exact ⟨m, mac, d, aF, hf, hd, hmode, haud⟩

example : componentTypes 1 65280 = some [] := by decide
example : componentTypes 1 2 = some [.compressibleName] := by decide

end QV.C13
