/-
  C26 — Response rate limiting follows its token-bucket rule over time.

  "With rate limiting enabled, each UDP QUERY response of a single response stream is sent,
   slipped or dropped exactly as a token bucket with capacity rate×window, refilled by rate per
   whole elapsed second, prescribes, for any pattern of request times including idle periods of
   years. With slip 0 limited responses are always dropped, with slip 1 always slipped, and a
   slipped response has TC set and no records other than OPT/TSIG."

  Model: `QV.Model.Rrl` (mirrors src/server/rrl.rs; explicit time, explicit `RandomState`).
  Spec:  `QV.Spec.Rrl` — the *eager* token bucket (`eager`, `shouldSend`): created by the stream's
         first response at t₀ with `cap − 1` tokens, `rate` more at every tick t₀ + n·1 s, capped
         at `cap = rate·window`, unbounded ℕ. The code is lazy (refills when a response arrives)
         and works in u32/u64; the theorems below say the two agree for every history.

  Interpretation choices (DESIGN.md §6): the ticks of a stream's bucket are aligned with the
  stream's first response (the code keeps that phase by subtracting the sub-second remainder from
  `now`); time stamps are those of the monotonic clock read under the bucket lock.
  Hypotheses of the history theorems, all about the hash table, none about time:
  `NoBucketCollision` (the documentation says colliding entries are forgotten — outside the
  token-bucket rule), `NoInitialKey` (a response whose key equals the dummy key the table is
  filled with — IPv4, masked destination 0, NOERROR, QNAME hash 0 — would inherit the phase of
  server start-up instead of its own first response), `HashInjectiveOn` (the key holds a 32-bit
  hash of the QNAME, not the QNAME).
-/
import QV.Proofs.Rrl

namespace QV.C26
open QV QV.Rrl

/-! ### configurations -/

/-- Whatever `RrlParams::new` + the setters accept is a valid configuration (rates, window ≥ 1,
    rate·window < 2³², size ≥ 1) with the requested slip and the netmasks of the prefix lengths. -/
theorem C26_configure_valid {ne nx er w slip v4len v6len size : Nat} {p : RrlParams}
    (h : RrlParams.configure ne nx er w slip v4len v6len size = .ok p) :
    p.Valid ∧ MasksOf p v4len v6len ∧ p.slip = slip ∧
    p.noerror_rate = ne ∧ p.nxdomain_rate = nx ∧ p.error_rate = er ∧ p.window = w ∧ p.size = size := by
  obtain ⟨hv, a, b, c, d, e, f, g4, g6, m4, m6⟩ := configure_ok h
  exact ⟨hv, ⟨g4, g6, m4, m6⟩, e, a, b, c, d, f⟩

/-- **Documented defaults of the remaining parameters** (rrl.rs, "The defaults are: slip 2 …
    size 65,537 entries"; the prefix lengths are `C27_default_masks`): an `RrlParams` fresh from
    `RrlParams::new` is a valid configuration with slip 2 and a table of 65 537 entries.  The two
    literals are read from the source by the extractor. -/
theorem C26_default_slip_size {ne nx er w : Nat} {p : RrlParams}
    (h : RrlParams.new ne nx er w = .ok p) : p.slip = 2 ∧ p.size = 65537 := by
  unfold RrlParams.new at h
  by_cases h1 : ne = 0 <;> simp only [h1, if_true, if_false] at h
  · cases h
  by_cases h2 : nx = 0 <;> simp only [h2, if_true, if_false] at h
  · cases h
  by_cases h3 : er = 0 <;> simp only [h3, if_true, if_false] at h
  · cases h
  by_cases h4 : w = 0 <;> simp only [h4, if_true, if_false] at h
  · cases h
  by_cases h5 : (u32MulOverflows ne w || u32MulOverflows nx w || u32MulOverflows er w) = true
  · rw [if_pos h5] at h; cases h
  · rw [if_neg h5] at h
    cases h
    exact ⟨show Gen.RRL_DEFAULT_SLIP = 2 by decide, show Gen.RRL_DEFAULT_SIZE = 65537 by decide⟩

/-! ### the u32/u64 side: the refill never overflows and never truncates (defect D10) -/

/-- For **every** rate and **every** idle time, the refill computed by the code —
    `(rate as u64).saturating_mul(secs).min(u32::MAX as u64) as u32` — is the ℕ value
    `min (rate·secs) (2³²−1)`. -/
theorem C26_refill_exact (rate secs : Nat) : refillOf rate secs = min (rate * secs) U32_MAX :=
  refillOf_eq rate secs

/-- … hence `count.saturating_sub(refill)` is the unbounded `count ∸ rate·secs` for every count
    that fits a `u32`: the clamp at `u32::MAX` is never observable. -/
theorem C26_refill_is_unbounded_subtraction (count rate secs : Nat) (h : count ≤ U32_MAX) :
    count - refillOf rate secs = count - rate * secs :=
  sub_refillOf count rate secs h

/-- The code before commit a2294ed (`rate * secs as u32`) panicked in the dev profile exactly when
    `rate·secs ≥ 2³²` (for gaps below 2³² s) … -/
theorem C26_old_refill_panics_iff (rate secs : Nat) (hs : secs ≤ U32_MAX) :
    refillOldDev rate secs = .panic ↔ rate * secs > U32_MAX :=
  refillOldDev_panic_iff rate secs hs

/-- … e.g. rate 100 after 42 949 673 idle seconds (the recorded witness); the release profile
    refilled 4 tokens instead of all of them, and a gap of exactly 2³² s refilled nothing. -/
theorem C26_old_refill_witness :
    refillOldDev 100 42949673 = .panic ∧ refillOldRelease 100 42949673 = 4 ∧
    refillOf 100 42949673 = U32_MAX ∧ refillOldRelease 1 4294967296 = 0 :=
  refillOld_witness

/-! ### one stream on its bucket -/

/-- **One stream, any pattern of request times.** Take any valid configuration, any bucket that
    currently holds another key (in particular a fresh one), and any non-decreasing sequence of
    instants — gaps of nanoseconds or of centuries. Running the critical section of
    `process_response` once per instant yields, response by response, exactly the verdicts of the
    eager token bucket with capacity `rate·window` and `rate` tokens per whole second since the
    first response; no step panics. (`verdicts` turns "limited" into Slip/Drop by `should_slip`.) -/
theorem C26_single_stream {p : RrlParams} (hv : p.Valid) (key : Key) (cat : Category) (e₀ : Entry)
    (hne : e₀.key ≠ key) (hist : List (Nat × Bool)) (hmono : MonoT 0 hist) :
    bucketRun p key cat e₀ hist =
      .ok (verdicts p hist (Spec.Rrl.eager (capOf p cat) (rateOf p cat) (hist.map (·.1)))) :=
  bucketRun_eager hv key cat e₀ hne hist hmono

/-- The invariant behind it, one response at a time: if the entry and the eager bucket are related
    (`count + tokens = cap`, `last_refill = t₀ + ticksDone·1 s`) they stay related, and the
    decision is the bucket's. -/
theorem C26_step_refines {p : RrlParams} (hv : p.Valid) (key : Key) (cat : Category) (e : Entry)
    (b : Spec.Rrl.Bucket) (now : Nat) (rnd : Bool)
    (hrel : Rel (capOf p cat) key e b) (hnow : e.last_refill ≤ now) :
    ∃ e', processBucket p key cat e now rnd =
        .ok (e', verdict p rnd (b.respond (capOf p cat) (rateOf p cat) now).2) ∧
      Rel (capOf p cat) key e' (b.respond (capOf p cat) (rateOf p cat) now).1 ∧ e'.last_refill ≤ now :=
  processBucket_step hv key cat e b now rnd hrel hnow

/-! ### whole histories through `process_response` -/

/-- **Main theorem.** For every `RandomState`, every valid configuration, and every time-stamped
    history of requests (any mix of sources, names, RCODEs, transports, opcodes; times
    non-decreasing from the creation of the table), under the three hash-table hypotheses:
    running `process_response` request by request on a fresh table never panics and leaves, for
    each request, exactly the context the specification prescribes — untouched if the response is
    not limitable; otherwise Send / Slip / Drop according to the eager token bucket of the
    response's *stream* (`Spec.Rrl.shouldSend`: the stream's history = the earlier limitable
    responses with the same network, category and, for NOERROR, name). -/
theorem C26_history {rs : RandomState} {p : RrlParams} {v4len v6len : Nat} (hv : p.Valid)
    (hm : MasksOf p v4len v6len) (T₀ : Nat) (reqs : List Req)
    (hmono : Mono T₀ reqs) (hsrc : SourcesCanonical reqs)
    (hnc : NoBucketCollision rs p reqs) (hni : NoInitialKey rs p reqs) (hinj : HashInjectiveOn rs reqs) :
    runAll rs (Rrl.new p T₀) reqs =
      .ok (expectedFrom (specDecision (cfgOf p v4len v6len)) p [] reqs) :=
  runAll_spec hv hm T₀ reqs hmono hsrc hnc hni hinj

/-- The same without `HashInjectiveOn` and without any assumption on the sources: each *key*
    (what the table actually stores) sees its own eager bucket. -/
theorem C26_history_per_key {rs : RandomState} {p : RrlParams} (hv : p.Valid) (T₀ : Nat) (reqs : List Req)
    (hmono : Mono T₀ reqs)
    (hnc : NoBucketCollision rs p reqs) (hni : NoInitialKey rs p reqs) :
    runAll rs (Rrl.new p T₀) reqs = .ok (expectedFrom (keyDecision rs p) p [] reqs) :=
  runAll_refines hv reqs hnc reqs [] (Rrl.new p T₀) T₀ rfl (inv_new rs p reqs T₀ hni) hmono

/-- `process_response` never panics: whatever the table holds, for any instant and **any**
    context — in particular a NOERROR response without a question (QDCOUNT = 0 request whose TSIG
    response does not fit; defect D17, repaired by commit 2232f31: the `unwrap` of the question is
    gone, such responses are classified under the root name). -/
theorem C26_never_panics (rs : RandomState) (R : Rrl) (hv : R.params.Valid) (now : Nat) (rnd : Bool)
    (c : Context) : processResponse rs R now rnd c ≠ .panic :=
  processResponse_no_panic rs R hv now rnd c

/-! ### what happens to a limited response -/

/-- slip = 0: a limited response is always dropped -/
theorem C26_slip0_drops (p : RrlParams) (h : p.slip = 0) (rnd : Bool) : verdict p rnd false = .Drop := by
  simp [verdict, shouldSlip, h]

/-- slip = 1: a limited response is always slipped -/
theorem C26_slip1_slips (p : RrlParams) (h : p.slip = 1) (rnd : Bool) : verdict p rnd false = .Slip := by
  simp [verdict, shouldSlip, h]

/-- slip ≥ 2: slipped or dropped as the random draw says; never sent -/
theorem C26_limited_never_sent (p : RrlParams) (rnd : Bool) : verdict p rnd false ≠ .Send := by
  unfold verdict; cases shouldSlip p rnd <;> simp

/-- a response the bucket admits is sent -/
theorem C26_admitted_is_sent (p : RrlParams) (rnd : Bool) : verdict p rnd true = .Send := rfl

/-- A slipped response has TC set and no records other than OPT/TSIG, and is still sent; a
    dropped one is not sent; a sent one is unchanged. -/
theorem C26_action_effects (c : Context) :
    ((applyAction c .Slip).response.tc = true ∧ (applyAction c .Slip).response.ancount = 0 ∧
      (applyAction c .Slip).response.nscount = 0 ∧
      (applyAction c .Slip).response.arcount = (if c.response.edns then 1 else 0) + (if c.response.tsig then 1 else 0) ∧
      (applyAction c .Slip).send_response = c.send_response) ∧
    (applyAction c .Drop).send_response = false ∧
    ((applyAction c .Send).response = c.response ∧ (applyAction c .Send).send_response = c.send_response) := by
  simp [applyAction, Resp.clearRrs, Resp.setTc]

/-- Every call of `process_response`, in any state: the context is either untouched (not
    limitable) or gets exactly one of the three actions, Slip only if `should_slip` said so and
    Drop only if it did not — in particular never Slip when slip = 0, never Drop when slip = 1. -/
theorem C26_outcome (rs : RandomState) (R : Rrl) (now : Nat) (rnd : Bool) (c : Context)
    (R' : Rrl) (c' : Context) (h : processResponse rs R now rnd c = .ok (R', c')) :
    (¬ subjectToRrl c = true ∧ R' = R ∧ c' = c) ∨
    (subjectToRrl c = true ∧ ∃ a, c' = applyAction c a ∧
      (R.params.slip = 0 → a ≠ .Slip) ∧ (R.params.slip = 1 → a ≠ .Drop)) := by
  rcases processResponse_shape rs R now rnd c R' c' h with h1 | ⟨hs, a, hc, h2, h3⟩
  · exact Or.inl h1
  · refine Or.inr ⟨hs, a, hc, ?_, ?_⟩
    · intro h0 ha
      have := h2 ha
      simp [shouldSlip, h0] at this
    · intro h1 ha
      have := h3 ha
      simp [shouldSlip, h1] at this

/-! ### non-vacuity -/

/-- a configuration accepted by the constructor and setters -/
def exParams : RrlParams :=
  { noerror_rate := 2, nxdomain_rate := 1, error_rate := 1, window := 3, slip := 1,
    ipv4_netmask := ipv4MaskOfLen 24, ipv6_netmask := ipv6MaskOfLen 56, size := 7 }

theorem exParams_configured : RrlParams.configure 2 1 1 3 1 24 56 7 = .ok exParams := by
  rfl

example : exParams.Valid ∧ MasksOf exParams 24 56 := by
  have := C26_configure_valid exParams_configured
  exact ⟨this.1, this.2.1⟩

/-- the eager bucket on a concrete history: capacity 6, 2 tokens per second; seven responses at
    t = 0 exhaust it, 1.5 s later two tokens are back, 100 years later it is full again -/
example : Spec.Rrl.eager 6 2
    [0, 0, 0, 0, 0, 0, 0, 1500000000, 1500000001, 1500000002, 3155760000000000000] =
    [true, true, true, true, true, true, false, true, true, false, true] := by
  rw [← Spec.Rrl.eagerFast_eq_eager]
  decide

/-- a concrete history satisfying the hypotheses of `C26_single_stream` -/
example : MonoT 0 [(5, false), (5, true), (2000000005, false)] := by simp [MonoT]

/-- regression witness for the repaired defect, on the model of the current code: an exhausted
    NOERROR bucket (rate 100, window 1) is full again after 42 949 673 idle seconds — no panic -/
example :
    (processBucket { exParams with noerror_rate := 100, window := 1 }
        { dest := 0, ipv6 := false, qname_hash := 7, category := .NoError } .NoError
        { key := { dest := 0, ipv6 := false, qname_hash := 7, category := .NoError }, count := 100, last_refill := 0 }
        (42949673 * NANOS_PER_SEC) false) =
      .ok ({ key := { dest := 0, ipv6 := false, qname_hash := 7, category := .NoError }, count := 1,
             last_refill := 42949673 * NANOS_PER_SEC }, .Send) := by
  simp [processBucket, rateAndLimitForCategory, u32Mul, refillOf, satMulU64, U32_MAX, U64_MAX,
    NANOS_PER_SEC, bind, Out.bind]

/-- regression witness for D17 on the model of the current code: a NOERROR response with neither
    question nor source of synthesis gets the key of the root name (no panic) -/
example (rs : RandomState) :
    keyOf rs exParams { send_response := true, transport := .Udp, opcode := 0, source := .v4 0xC0000201,
                        extended_rcode := 0, question := none, source_of_synthesis := none,
                        response := { tc := true, ancount := 0, nscount := 0, arcount := 0, edns := false, tsig := false },
                        rrl_action := none } =
      .ok { dest := ipToDestU64 exParams (.v4 0xC0000201), ipv6 := false,
            qname_hash := rs.hashName [0], category := .NoError } := by
  rw [keyOf_ok]; rfl

/-! #### a concrete history satisfying every hypothesis of `C26_history` -/

/-- a `RandomState` for the example: a hash that separates the two names used below -/
def exRs : RandomState :=
  { hashName := fun n => UInt32.ofNat (n.foldl (fun a b => a * 256 + b.toNat) 0)
    hashKey := fun k => k.qname_hash.toNat + (match k.category with | .NoError => 0 | .NxDomain => 1 | .Error => 2) }

def exCtx (rcode : Nat) (qname : List UInt8) : Context :=
  { send_response := true, transport := .Udp, opcode := 0,
    source := ReceivedInfo.new (.v4 0xC0000201), extended_rcode := rcode,
    question := some qname, source_of_synthesis := none,
    response := { tc := false, ancount := 1, nscount := 0, arcount := 0, edns := false, tsig := false },
    rrl_action := none }

/-- three NOERROR responses for `a.` (at 0 s, 0 s and 0.5 s) and one NXDOMAIN for `b.` -/
def exReqs : List Req :=
  [ ⟨.v4 0xC0000201, 0, false, exCtx 0 [1, 97, 0]⟩,
    ⟨.v4 0xC0000201, 0, false, exCtx 0 [1, 65, 0]⟩,
    ⟨.v4 0xC0000201, 500000000, false, exCtx 3 [1, 98, 0]⟩,
    ⟨.v4 0xC0000201, 500000000, false, exCtx 0 [1, 97, 0]⟩ ]

def exP1 : RrlParams := { exParams with noerror_rate := 1, window := 2 }

theorem exP1_valid : exP1.Valid := by
  refine ⟨?_, by decide, ?_, by decide⟩ <;> intro c <;> cases c <;> simp [capOf, rateOf, exP1, exParams, U32_MAX]

theorem exKeys : ∀ q ∈ exReqs,
    q.key? exRs exP1 = some { dest := 0xC0000200, ipv6 := false, qname_hash := 0x016100, category := .NoError } ∨
    q.key? exRs exP1 = some { dest := 0xC0000200, ipv6 := false, qname_hash := 0, category := .NxDomain } := by
  decide


theorem exMasks : MasksOf exP1 24 56 := ⟨by decide, by decide, rfl, rfl⟩

theorem exHyps :
    Mono 0 exReqs ∧ SourcesCanonical exReqs ∧ NoBucketCollision exRs exP1 exReqs ∧
    NoInitialKey exRs exP1 exReqs ∧ HashInjectiveOn exRs exReqs := by
  refine ⟨?_, ?_, ?_, ?_, ?_⟩
  · simp [Mono, exReqs]
  · unfold SourcesCanonical; decide
  · intro q hq q' hq' k k' hk hk' hidx
    rcases exKeys q hq with h | h <;> rcases exKeys q' hq' with h' | h' <;>
      rw [h] at hk <;> rw [h'] at hk' <;> cases hk <;> cases hk' <;>
      first | rfl | (exfalso; revert hidx; decide)
  · intro q hq h
    rcases exKeys q hq with h1 | h1 <;> rw [h1] at h <;> simp [initialKey] at h
  · unfold HashInjectiveOn; decide

/-- … and on it the theorem's conclusion reads: the two `a.`/`A.` responses at t = 0 and the
    NXDOMAIN are sent, the third NOERROR response 0.5 s later is slipped (limit 2, slip 1) -/
example :
    (runAll exRs (Rrl.new exP1 0) exReqs).toOption.map (·.map (·.rrl_action)) =
      some [some .Send, some .Send, some .Send, some .Slip] := by
  rw [C26_history exP1_valid exMasks 0 exReqs exHyps.1 exHyps.2.1 exHyps.2.2.1 exHyps.2.2.2.1
    exHyps.2.2.2.2]
  decide

end QV.C26
