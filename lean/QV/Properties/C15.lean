/-
  C15 — The message reader is total, atomic and faithful.

  "For any octet string, every reader operation (header accessors, reading or skipping questions
   and records, peeking at records) returns a value or an error without panicking, and an
   operation that fails leaves the read position unchanged. Successful reads agree with an
   independent decoder on every field, including decompressed RDATA of RFC 1035 types."

  Model: `QV.Model.Reader` (mirrors src/message/reader.rs).  Spec: `QV.Spec.Reader`
  (`QuestionAt`, `RrHeaderAt`, built on the RFC 1035 §4.1.4 relation of C14).
  `Rdata::read` enters as a parameter `rdr` with the two facts the reader relies on
  (`RdReadOK`); they are theorems of C18 about the RDATA model.
  The one documented panic — `rewind` without a mark — is stated as such.
-/
import QV.Proofs.Reader
import QV.Properties.C18

namespace QV.C15
open QV QV.Wire QV.Reader QV.Spec

/-- what the reader needs from `Rdata::read` (proved for the RDATA model in C18, see
    `C15_rdata_model_ok` below): it does not panic on arguments in the range of the Rust types
    (`rdlength : u16`, `cursor + rdlength` representable in `usize`), and RDATA it accepts lies
    inside the message -/
structure RdReadOK (rdr : RdRead) : Prop where
  no_panic : ∀ c t m cur len, len ≤ 65535 → cur + len ≤ 18446744073709551615 → rdr c t m cur len ≠ .panic
  inside : ∀ c t m cur len rd, rdr c t m cur len = .ok rd → cur + len ≤ m.size

/-- messages are far smaller than the address space (the server reads at most 65535 octets) -/
def SizeOK (r : Reader) : Prop := r.octets.size ≤ 4294967295

theorem be16_lt (b : Bytes) (pos : Nat) : be16 b pos < 65536 := by
  unfold be16
  have h1 := (b.getD pos 0).toNat_lt
  have h2 := (b.getD (pos + 1) 0).toNat_lt
  omega

theorem readU16At_lt (b : Bytes) (pos v : Nat) (h : readU16At b pos = .ok v) : v < 65536 := by
  unfold readU16At at h
  split at h
  · cases h
  · split at h
    · cases h; exact be16_lt _ _
    · cases h

/-! ### construction and invariant -/

theorem C15_tryFrom_inv (b : Bytes) (r : Reader) (h : tryFrom b = .ok r) : Inv r := by
  unfold tryFrom at h
  split at h
  · cases h; exact ⟨by assumption, by assumption⟩
  · cases h

theorem C15_tryFrom_total (b : Bytes) : tryFrom b ≠ .panic := by
  unfold tryFrom; split <;> simp

/-! ### header accessors never panic and read the RFC 1035 §4.1.1 fields -/

theorem hdr16_ok (r : Reader) (a : Nat) (h : a + 2 ≤ r.octets.size) : hdr16 r a = .ok (be16 r.octets a) := by
  simp [hdr16, h]

theorem flag_ok (r : Reader) (byte mask : Nat) (h : byte < r.octets.size) :
    flag r byte mask = .ok ((r.octets[byte].toNat &&& mask) != 0) := by
  simp [flag, idx, h]

theorem C15_header_no_panic (r : Reader) (hi : Inv r) :
    msgId r ≠ .panic ∧ qdcount r ≠ .panic ∧ ancount r ≠ .panic ∧ nscount r ≠ .panic ∧
    arcount r ≠ .panic ∧ qr r ≠ .panic ∧ aa r ≠ .panic ∧ tc r ≠ .panic ∧ rd r ≠ .panic ∧
    ra r ≠ .panic ∧ opcode r ≠ .panic ∧ rcode r ≠ .panic := by
  have h12 : 12 ≤ r.octets.size := hi.1
  have c : Gen.ID_START = 0 ∧ Gen.QDCOUNT_START = 4 ∧ Gen.ANCOUNT_START = 6 ∧ Gen.NSCOUNT_START = 8 ∧
      Gen.ARCOUNT_START = 10 ∧ Gen.QR_BYTE = 2 ∧ Gen.AA_BYTE = 2 ∧ Gen.TC_BYTE = 2 ∧ Gen.RD_BYTE = 2 ∧
      Gen.RA_BYTE = 3 ∧ Gen.OPCODE_BYTE = 2 ∧ Gen.RCODE_BYTE = 3 ∧ Gen.OPCODE_MASK = 120 ∧
      Gen.OPCODE_SHIFT = 3 ∧ Gen.RCODE_MASK = 15 := by decide
  obtain ⟨c1, c2, c3, c4, c5, c6, c7, c8, c9, c10, c11, c12, c13, c14, c15⟩ := c
  refine ⟨?_, ?_, ?_, ?_, ?_, ?_, ?_, ?_, ?_, ?_, ?_, ?_⟩
  · rw [msgId, hdr16_ok r _ (by omega)]; simp
  · rw [qdcount, hdr16_ok r _ (by omega)]; simp
  · rw [ancount, hdr16_ok r _ (by omega)]; simp
  · rw [nscount, hdr16_ok r _ (by omega)]; simp
  · rw [arcount, hdr16_ok r _ (by omega)]; simp
  · rw [qr, flag_ok r _ _ (by omega)]; simp
  · rw [aa, flag_ok r _ _ (by omega)]; simp
  · rw [tc, flag_ok r _ _ (by omega)]; simp
  · rw [rd, flag_ok r _ _ (by omega)]; simp
  · rw [ra, flag_ok r _ _ (by omega)]; simp
  · -- opcode: (b &&& 0x78) >>> 3 < 16
    have hlt : 2 < r.octets.size := by omega
    have : (r.octets[2].toNat &&& 120) ≤ 120 := Nat.and_le_right
    have h2 : (r.octets[2].toNat &&& 120) >>> 3 < 16 := by
      rw [Nat.shiftRight_eq_div_pow]; omega
    simp [opcode, idx, c11, c13, c14, hlt, h2]
  · have hlt : 3 < r.octets.size := by omega
    have : (r.octets[3].toNat &&& 15) ≤ 15 := Nat.and_le_right
    have h2 : (r.octets[3].toNat &&& 15) < 16 := by omega
    simp [rcode, idx, c12, c15, hlt, h2]

/-- the 16-bit header fields are the big-endian fields at their RFC positions -/
theorem C15_header_fields (r : Reader) (hi : Inv r) :
    Field16 r.octets 0 (be16 r.octets 0) ∧ msgId r = .ok (be16 r.octets 0) ∧
    qdcount r = .ok (be16 r.octets 4) ∧ ancount r = .ok (be16 r.octets 6) ∧
    nscount r = .ok (be16 r.octets 8) ∧ arcount r = .ok (be16 r.octets 10) := by
  have h12 : 12 ≤ r.octets.size := hi.1
  refine ⟨⟨by omega, be16_eq _ _ (by omega)⟩, ?_, ?_, ?_, ?_, ?_⟩
  · rw [msgId, hdr16_ok r _ (by simp [Gen.ID_START]; omega)]; rfl
  · rw [qdcount, hdr16_ok r _ (by simp [Gen.QDCOUNT_START]; omega)]; rfl
  · rw [ancount, hdr16_ok r _ (by simp [Gen.ANCOUNT_START]; omega)]; rfl
  · rw [nscount, hdr16_ok r _ (by simp [Gen.NSCOUNT_START]; omega)]; rfl
  · rw [arcount, hdr16_ok r _ (by simp [Gen.ARCOUNT_START]; omega)]; rfl

/-! ### read_question -/

theorem C15_read_question_no_panic (r : Reader) (hi : Inv r) : (readQuestion r).1 ≠ .panic := by
  unfold readQuestion
  cases hp : parseCompressed r.octets r.cursor with
  | panic => exact absurd hp (C14.C14_no_panic _ _)
  | err e => simp
  | ok p =>
    have hin := parse_inside _ _ _ hp
    simp only
    cases h1 : readU16At r.octets (r.cursor + p.len) with
    | panic => exact absurd h1 (readU16At_no_panic _ _ hin)
    | err e => simp
    | ok qt =>
      have := readU16At_ok_bound _ _ _ h1
      simp only
      cases h2 : readU16At r.octets (r.cursor + p.len + 2) with
      | panic => exact absurd h2 (readU16At_no_panic _ _ (by omega))
      | err e => simp
      | ok qc => simp

/-- a failed `read_question` leaves the reader unchanged -/
theorem C15_read_question_atomic (r : Reader) (h : ¬ (readQuestion r).1.isOk) : (readQuestion r).2 = r := by
  unfold readQuestion at h ⊢
  repeat' split
  all_goals first | rfl | (simp_all [Out.isOk])

/-- **faithfulness**: `read_question` succeeds exactly on the questions the RFC describes, returns
    exactly their fields, and advances exactly past them -/
theorem C15_read_question_iff (r : Reader) (hi : Inv r) (q : Question) (r' : Reader) :
    readQuestion r = (.ok q, r') ↔
      QuestionAt r.octets r.cursor q.qname q.qtype q.qclass r'.cursor ∧
      r'.octets = r.octets ∧ r'.mark = r.mark := by
  unfold readQuestion QuestionAt
  constructor
  · intro h
    cases hp : parseCompressed r.octets r.cursor with
    | panic => rw [hp] at h; cases h
    | err e => rw [hp] at h; cases h
    | ok p =>
      rw [hp] at h
      have hin := parse_inside _ _ _ hp
      have hd := (C14.C14_parse_ok_iff _ _ _).mp hp
      simp only at h
      cases h1 : readU16At r.octets (r.cursor + p.len) with
      | panic => rw [h1] at h; cases h
      | err e => rw [h1] at h; cases h
      | ok qt =>
        rw [h1] at h
        have b1 := readU16At_ok_bound _ _ _ h1
        simp only at h
        cases h2 : readU16At r.octets (r.cursor + p.len + 2) with
        | panic => rw [h2] at h; cases h
        | err e => rw [h2] at h; cases h
        | ok qc =>
          rw [h2] at h
          cases h
          exact ⟨⟨p.nlabels, p.len, hd, (readU16At_ok_iff _ _ _ hin).mp h1,
            (readU16At_ok_iff _ _ _ (by omega)).mp h2, rfl⟩, rfl, rfl⟩
  · intro ⟨⟨n, k, hd, f1, f2, hn⟩, ho, hm⟩
    have hp := (C14.C14_parse_ok_iff r.octets r.cursor ⟨q.qname, n, k⟩).mpr hd
    have hin := parse_inside _ _ _ hp
    rw [hp]
    simp only
    have h1 := (readU16At_ok_iff _ _ _ hin).mpr f1
    rw [h1]
    have b1 := readU16At_ok_bound _ _ _ h1
    simp only
    have h2 := (readU16At_ok_iff _ _ _ (by simp only at b1 ⊢; omega)).mpr f2
    rw [h2]
    cases r'; cases r; cases q
    simp_all

theorem C15_read_question_inv (r : Reader) (hi : Inv r) : Inv (readQuestion r).2 := by
  cases h : (readQuestion r).1 with
  | ok q =>
    have e : readQuestion r = (.ok q, (readQuestion r).2) := by rw [← h]
    obtain ⟨⟨n, k, hd, f1, ⟨hb, _⟩, hn⟩, ho, hm⟩ := (C15_read_question_iff r hi q _).mp e
    unfold Reader.Inv
    rw [ho]
    exact ⟨hi.1, by omega⟩
  | err e => rw [C15_read_question_atomic r (by simp [h, Out.isOk])]; exact hi
  | panic => rw [C15_read_question_atomic r (by simp [h, Out.isOk])]; exact hi

/-! ### skip_question -/

theorem C15_skip_question_no_panic (r : Reader) (hi : Inv r) : (skipQuestion r).1 ≠ .panic := by
  unfold skipQuestion
  cases h : skipAtCursor r with
  | panic => exact absurd h (skipAtCursor_no_panic r hi)
  | err e => simp
  | ok k => simp only; split <;> simp

theorem C15_skip_question_atomic (r : Reader) (h : ¬ (skipQuestion r).1.isOk) : (skipQuestion r).2 = r := by
  unfold skipQuestion at h ⊢
  repeat' split
  all_goals first | rfl | (simp_all [Out.isOk])

theorem C15_skip_question_inv (r : Reader) (hi : Inv r) : Inv (skipQuestion r).2 := by
  unfold skipQuestion
  cases skipAtCursor r with
  | panic => exact hi
  | err e => exact hi
  | ok k =>
    simp only
    split
    · exact hi
    · exact ⟨hi.1, by simp only; omega⟩

/-- skipping agrees with reading: whenever a question can be read it can be skipped, to the same
    position -/
theorem C15_skip_of_read_question (r : Reader) (hi : Inv r) (q : Question) (r' : Reader)
    (h : readQuestion r = (.ok q, r')) : skipQuestion r = (.ok (), r') := by
  obtain ⟨⟨n, k, hd, f1, ⟨hb, _⟩, hn⟩, ho, hm⟩ := (C15_read_question_iff r hi q r').mp h
  have hp := (C14.C14_parse_ok_iff r.octets r.cursor ⟨q.qname, n, k⟩).mpr hd
  have hs := C14.C14_skip_agrees _ _ _ hp
  unfold skipQuestion skipAtCursor
  have : ¬ r.cursor > r.octets.size := by have := hi.2; omega
  simp only [this, if_false, hs]
  have : ¬ (r.cursor + k + 4 > r.octets.size) := by omega
  simp only [this, if_false]
  cases r'; cases r
  simp_all

/-! ### delimiting a record: skip_rr and peek_rr -/

theorem delimitRr_no_panic (r : Reader) (hi : Inv r) : delimitRr r ≠ .panic := by
  unfold delimitRr
  cases h : skipAtCursor r with
  | panic => exact absurd h (skipAtCursor_no_panic r hi)
  | err e => simp
  | ok k =>
    simp only
    cases h2 : readU16Get r.octets (r.cursor + k + 8) with
    | panic => exact absurd h2 (readU16Get_no_panic _ _)
    | err e => simp
    | ok v => simp only; split <;> simp

theorem delimitRr_bounds (r : Reader) (oe re : Nat) (h : delimitRr r = .ok (oe, re)) :
    r.cursor ≤ oe ∧ oe + 10 ≤ re ∧ re ≤ r.octets.size := by
  unfold delimitRr at h
  cases h1 : skipAtCursor r with
  | panic => rw [h1] at h; cases h
  | err e => rw [h1] at h; cases h
  | ok k =>
    rw [h1] at h
    simp only at h
    cases h2 : readU16Get r.octets (r.cursor + k + 8) with
    | panic => rw [h2] at h; cases h
    | err e => rw [h2] at h; cases h
    | ok v =>
      rw [h2] at h
      simp only at h
      split at h
      · cases h
      · cases h; omega

theorem C15_skip_rr_no_panic (r : Reader) (hi : Inv r) : (skipRr r).1 ≠ .panic := by
  unfold skipRr
  cases h : delimitRr r with
  | panic => exact absurd h (delimitRr_no_panic r hi)
  | err e => simp
  | ok v => simp

theorem C15_skip_rr_atomic (r : Reader) (h : ¬ (skipRr r).1.isOk) : (skipRr r).2 = r := by
  unfold skipRr at h ⊢
  repeat' split
  all_goals first | rfl | (simp_all [Out.isOk])

theorem C15_skip_rr_inv (r : Reader) (hi : Inv r) : Inv (skipRr r).2 := by
  unfold skipRr
  cases h : delimitRr r with
  | panic => exact hi
  | err e => exact hi
  | ok v =>
    obtain ⟨oe, re⟩ := v
    have := delimitRr_bounds r oe re h
    exact ⟨hi.1, by simp only; omega⟩

theorem C15_peek_rr_no_panic (r : Reader) (hi : Inv r) : peekRr r ≠ .panic := by
  unfold peekRr
  cases h : delimitRr r with
  | panic => exact absurd h (delimitRr_no_panic r hi)
  | err e => simp
  | ok v => simp

/-- `peek_rr` followed by `skip` is `skip_rr` -/
theorem C15_peek_skip (r : Reader) (p : PeekRr) (h : peekRr r = .ok p) : skipRr r = (.ok (), p.skip) := by
  unfold peekRr at h
  unfold skipRr
  cases hd : delimitRr r with
  | panic => rw [hd] at h; cases h
  | err e => rw [hd] at h; cases h
  | ok v => rw [hd] at h; cases h; rfl

/-- after a successful `peek_rr` every accessor is in range (no panic) and returns the field of
    the record at that position -/
theorem C15_peek_accessors (r : Reader) (p : PeekRr) (h : peekRr r = .ok p) :
    p.reader = r ∧
    p.rrType = .ok (be16 r.octets p.ownerEnd) ∧ p.cls = .ok (be16 r.octets (p.ownerEnd + 2)) ∧
    p.rawTtl = .ok (be32 r.octets (p.ownerEnd + 4)) ∧
    p.ttl = .ok (ttlFrom (be32 r.octets (p.ownerEnd + 4))) ∧
    p.rdlength = .ok (be16 r.octets (p.ownerEnd + 8)) ∧
    p.rrEnd = p.ownerEnd + 10 + be16 r.octets (p.ownerEnd + 8) ∧ p.rrEnd ≤ r.octets.size := by
  unfold peekRr at h
  cases hd : delimitRr r with
  | panic => rw [hd] at h; cases h
  | err e => rw [hd] at h; cases h
  | ok v =>
    obtain ⟨oe, re⟩ := v
    rw [hd] at h; cases h
    have hb := delimitRr_bounds r oe re hd
    have hre : re = oe + 10 + be16 r.octets (oe + 8) := by
      unfold delimitRr at hd
      cases h1 : skipAtCursor r with
      | panic => rw [h1] at hd; cases hd
      | err e => rw [h1] at hd; cases hd
      | ok k =>
        rw [h1] at hd
        simp only at hd
        cases h2 : readU16Get r.octets (r.cursor + k + 8) with
        | panic => rw [h2] at hd; cases hd
        | err e => rw [h2] at hd; cases hd
        | ok v =>
          rw [h2] at hd
          simp only at hd
          split at hd
          · cases hd
          · cases hd
            unfold readU16Get at h2
            split at h2
            · cases h2
            · split at h2
              · cases h2; rfl
              · cases h2
    simp only [PeekRr.rrType, PeekRr.cls, PeekRr.rawTtl, PeekRr.ttl, PeekRr.rdlength, sliceBe]
    have e1 : oe + 2 ≤ r.octets.size := by omega
    have e2 : oe + 2 + 2 ≤ r.octets.size := by omega
    have e3 : oe + 4 + 4 ≤ r.octets.size := by omega
    have e4 : oe + 8 + 2 ≤ r.octets.size := by omega
    simp [e1, e2, e3, e4]
    exact ⟨hre, hb.2.2⟩

/-! ### read_rr and peek_rr + parse -/

theorem C15_read_rr_no_panic (rdr : RdRead) (hr : RdReadOK rdr) (r : Reader) (hi : Inv r) (hsz : SizeOK r) :
    (readRr rdr r).1 ≠ .panic := by
  unfold readRr
  cases hp : parseCompressed r.octets r.cursor with
  | panic => exact absurd hp (C14.C14_no_panic _ _)
  | err e => simp
  | ok p =>
    have hin := parse_inside _ _ _ hp
    simp only
    cases h1 : readU16At r.octets (r.cursor + p.len) with
    | panic => exact absurd h1 (readU16At_no_panic _ _ hin)
    | err e => simp
    | ok ty =>
      have b1 := readU16At_ok_bound _ _ _ h1
      simp only
      cases h2 : readU16At r.octets (r.cursor + p.len + 2) with
      | panic => exact absurd h2 (readU16At_no_panic _ _ (by omega))
      | err e => simp
      | ok cl =>
        have b2 := readU16At_ok_bound _ _ _ h2
        simp only
        cases h3 : readU32At r.octets (r.cursor + p.len + 4) with
        | panic => exact absurd h3 (readU32At_no_panic _ _ (by omega))
        | err e => simp
        | ok ttl =>
          have b3 := readU32At_ok_bound _ _ _ h3
          simp only
          cases h4 : readU16At r.octets (r.cursor + p.len + 8) with
          | panic => exact absurd h4 (readU16At_no_panic _ _ (by omega))
          | err e => simp
          | ok rdlen =>
            have b4 := readU16At_ok_bound _ _ _ h4
            have l4 := readU16At_lt _ _ _ h4
            simp only
            cases h5 : rdr cl ty r.octets (r.cursor + p.len + 10) rdlen with
            | panic => exact absurd h5 (hr.no_panic _ _ _ _ _ (by omega) (by unfold SizeOK at hsz; omega))
            | err e => simp
            | ok rd => simp

theorem C15_read_rr_atomic (rdr : RdRead) (r : Reader) (h : ¬ (readRr rdr r).1.isOk) :
    (readRr rdr r).2 = r := by
  unfold readRr at h ⊢
  repeat' split
  all_goals first | rfl | (simp_all [Out.isOk])

/-- **faithfulness**: `read_rr` succeeds exactly on a well-delimited record whose RDATA the RDATA
    reader accepts, and returns the record's fields (TTL per RFC 2181 §8) -/
theorem C15_read_rr_iff (rdr : RdRead) (hr : RdReadOK rdr) (r : Reader) (hi : Inv r) (rr : Rr) (r' : Reader) :
    readRr rdr r = (.ok rr, r') ↔
      ∃ rdpos rdlen, RrHeaderAt r.octets r.cursor rr.owner rr.rrType rr.cls rr.ttl rdpos rdlen r'.cursor ∧
        rdr rr.cls rr.rrType r.octets rdpos rdlen = .ok rr.rdata ∧
        r'.octets = r.octets ∧ r'.mark = r.mark := by
  unfold readRr RrHeaderAt
  constructor
  · intro h
    cases hp : parseCompressed r.octets r.cursor with
    | panic => rw [hp] at h; cases h
    | err e => rw [hp] at h; cases h
    | ok p =>
      rw [hp] at h
      have hin := parse_inside _ _ _ hp
      have hd := (C14.C14_parse_ok_iff _ _ _).mp hp
      simp only at h
      cases h1 : readU16At r.octets (r.cursor + p.len) with
      | panic => rw [h1] at h; cases h
      | err e => rw [h1] at h; cases h
      | ok ty =>
        rw [h1] at h
        have b1 := readU16At_ok_bound _ _ _ h1
        simp only at h
        cases h2 : readU16At r.octets (r.cursor + p.len + 2) with
        | panic => rw [h2] at h; cases h
        | err e => rw [h2] at h; cases h
        | ok cl =>
          rw [h2] at h
          have b2 := readU16At_ok_bound _ _ _ h2
          simp only at h
          cases h3 : readU32At r.octets (r.cursor + p.len + 4) with
          | panic => rw [h3] at h; cases h
          | err e => rw [h3] at h; cases h
          | ok ttl =>
            rw [h3] at h
            have b3 := readU32At_ok_bound _ _ _ h3
            simp only at h
            cases h4 : readU16At r.octets (r.cursor + p.len + 8) with
            | panic => rw [h4] at h; cases h
            | err e => rw [h4] at h; cases h
            | ok rdlen =>
              rw [h4] at h
              simp only at h
              cases h5 : rdr cl ty r.octets (r.cursor + p.len + 10) rdlen with
              | panic => rw [h5] at h; cases h
              | err e => rw [h5] at h; cases h
              | ok rd =>
                rw [h5] at h
                cases h
                have hins := hr.inside _ _ _ _ _ _ h5
                refine ⟨r.cursor + p.len + 10, rdlen, ⟨p.nlabels, p.len, ttl, hd,
                  (readU16At_ok_iff _ _ _ hin).mp h1, (readU16At_ok_iff _ _ _ (by omega)).mp h2,
                  (readU32At_ok_iff _ _ _ (by omega)).mp h3, ?_,
                  (readU16At_ok_iff _ _ _ (by omega)).mp h4, rfl, rfl, hins⟩, h5, rfl, rfl⟩
                simp [ttlFrom, specTtl]; split <;> split <;> first | rfl | omega
  · intro ⟨rdpos, rdlen, ⟨n, k, raw, hd, f1, f2, f3, ht, f4, hrd, hnx, hle⟩, h5, ho, hm⟩
    have hp := (C14.C14_parse_ok_iff r.octets r.cursor ⟨rr.owner, n, k⟩).mpr hd
    have hin := parse_inside _ _ _ hp
    rw [hp]
    simp only at hin ⊢
    have h1 := (readU16At_ok_iff _ _ _ hin).mpr f1
    have b1 := readU16At_ok_bound _ _ _ h1
    rw [h1]; simp only
    have h2 := (readU16At_ok_iff _ _ _ (by omega)).mpr f2
    have b2 := readU16At_ok_bound _ _ _ h2
    rw [h2]; simp only
    have h3 := (readU32At_ok_iff _ _ _ (by omega)).mpr f3
    have b3 := readU32At_ok_bound _ _ _ h3
    rw [h3]; simp only
    have h4 := (readU16At_ok_iff _ _ _ (by omega)).mpr f4
    rw [h4]; simp only
    subst hrd
    rw [h5]
    have et : ttlFrom raw = rr.ttl := by
      rw [ht]; simp [ttlFrom, specTtl]; split <;> split <;> first | rfl | omega
    cases r'; cases r; cases rr
    simp_all

theorem C15_read_rr_inv (rdr : RdRead) (hr : RdReadOK rdr) (r : Reader) (hi : Inv r) : Inv (readRr rdr r).2 := by
  cases h : (readRr rdr r).1 with
  | ok rr =>
    have e : readRr rdr r = (.ok rr, (readRr rdr r).2) := by rw [← h]
    obtain ⟨rdpos, rdlen, ⟨n, k, raw, hd, f1, f2, f3, ht, f4, hrd, hnx, hle⟩, h5, ho, hm⟩ :=
      (C15_read_rr_iff rdr hr r hi rr _).mp e
    unfold Reader.Inv
    rw [ho]
    exact ⟨hi.1, by omega⟩
  | err e => rw [C15_read_rr_atomic rdr r (by simp [h, Out.isOk])]; exact hi
  | panic => rw [C15_read_rr_atomic rdr r (by simp [h, Out.isOk])]; exact hi

/-- `PeekRr::parse` never panics and is atomic -/
theorem C15_peek_parse_no_panic (rdr : RdRead) (hr : RdReadOK rdr) (r : Reader) (hsz : SizeOK r) (p : PeekRr)
    (h : peekRr r = .ok p) : (p.parse rdr).1 ≠ .panic := by
  obtain ⟨hr0, a1, a2, a3, a4, a5, a6, a7⟩ := C15_peek_accessors r p h
  unfold PeekRr.parse PeekRr.owner
  rw [hr0]
  cases hp : parseCompressed r.octets r.cursor with
  | panic => exact absurd hp (C14.C14_no_panic _ _)
  | err e => simp
  | ok n =>
    simp only [a1, a2, a4, a5]
    cases h5 : rdr (be16 r.octets (p.ownerEnd + 2)) (be16 r.octets p.ownerEnd) r.octets (p.ownerEnd + 10)
        (be16 r.octets (p.ownerEnd + 8)) with
    | panic =>
      have := be16_lt r.octets (p.ownerEnd + 8)
      exact absurd h5 (hr.no_panic _ _ _ _ _ (by omega) (by unfold SizeOK at hsz; omega))
    | err e => simp
    | ok rd => simp

theorem C15_peek_parse_atomic (rdr : RdRead) (p : PeekRr) (h : ¬ (p.parse rdr).1.isOk) :
    (p.parse rdr).2 = p.reader := by
  unfold PeekRr.parse at h ⊢
  repeat' split
  all_goals first | rfl | (simp_all [Out.isOk])

/-- `peek_rr` followed by `parse` reads the same record as `read_rr`, and leaves the reader at the
    same position -/
theorem C15_peek_parse_eq_read_rr (rdr : RdRead) (hr : RdReadOK rdr) (r : Reader) (hi : Inv r)
    (rr : Rr) (r' : Reader) :
    readRr rdr r = (.ok rr, r') ↔ ∃ p, peekRr r = .ok p ∧ p.parse rdr = (.ok rr, r') := by
  constructor
  · intro h
    obtain ⟨rdpos, rdlen, ⟨n, k, raw, hd, f1, f2, f3, ht, f4, hrd, hnx, hle⟩, h5, ho, hm⟩ :=
      (C15_read_rr_iff rdr hr r hi rr r').mp h
    have hp := (C14.C14_parse_ok_iff r.octets r.cursor ⟨rr.owner, n, k⟩).mpr hd
    have hs := C14.C14_skip_agrees _ _ _ hp
    have hnc : ¬ r.cursor > r.octets.size := by have := hi.2; omega
    have hdl : delimitRr r = .ok (r.cursor + k, r.cursor + k + 10 + rdlen) := by
      unfold delimitRr skipAtCursor
      simp only [hnc, if_false, hs]
      rw [(readU16Get_ok_iff _ _ _).mpr f4]
      have : ¬ (r.cursor + k + 10 + rdlen > r.octets.size) := by omega
      simp only [this, if_false]
    refine ⟨⟨r, r.cursor + k, r.cursor + k + 10 + rdlen⟩, by unfold peekRr; rw [hdl], ?_⟩
    obtain ⟨g1, _⟩ := f1
    obtain ⟨g2, _⟩ := f2
    obtain ⟨g3, _⟩ := f3
    obtain ⟨g4, _⟩ := f4
    unfold PeekRr.parse PeekRr.owner
    simp only [hp, PeekRr.cls, PeekRr.rrType, PeekRr.rdlength, PeekRr.ttl, PeekRr.rawTtl, sliceBe]
    have e1 : r.cursor + k + 2 ≤ r.octets.size := by omega
    have e2 : r.cursor + k + 2 + 2 ≤ r.octets.size := by omega
    have e3 : r.cursor + k + 4 + 4 ≤ r.octets.size := by omega
    have e4 : r.cursor + k + 8 + 2 ≤ r.octets.size := by omega
    simp only [e1, e2, e3, e4, if_true]
    have q1 : be16 r.octets (r.cursor + k) = rr.rrType := by rw [be16_eq _ _ g1]; omega
    have q2 : be16 r.octets (r.cursor + k + 2) = rr.cls := by rw [be16_eq _ _ g2]; omega
    have q3 : be32 r.octets (r.cursor + k + 4) = raw := by rw [be32_eq _ _ g3]; omega
    have q4 : be16 r.octets (r.cursor + k + 8) = rdlen := by rw [be16_eq _ _ g4]; omega
    simp only [show (2:Nat) = 2 from rfl, if_true, show ¬ ((4:Nat) = 2) by omega, if_false, q1, q2, q3, q4]
    subst hrd
    rw [h5]
    have et : ttlFrom raw = rr.ttl := by
      rw [ht]; simp [ttlFrom, specTtl]; split <;> split <;> first | rfl | omega
    cases r'; cases r; cases rr
    simp_all
  · intro ⟨p, hpk, hps⟩
    obtain ⟨hr0, a1, a2, a3, a4, a5, a6, a7⟩ := C15_peek_accessors r p hpk
    -- owner_end is cursor + first-chunk length of the owner
    unfold PeekRr.parse PeekRr.owner at hps
    rw [hr0] at hps
    cases hp : parseCompressed r.octets r.cursor with
    | panic => rw [hp] at hps; cases hps
    | err e => rw [hp] at hps; cases hps
    | ok n =>
      rw [hp] at hps
      simp only [a1, a2, a4, a5] at hps
      have hs := C14.C14_skip_agrees _ _ _ hp
      have hnc : ¬ r.cursor > r.octets.size := by have := hi.2; omega
      have hoe : p.ownerEnd = r.cursor + n.len := by
        unfold peekRr delimitRr skipAtCursor at hpk
        simp only [hnc, if_false, hs] at hpk
        cases h2 : readU16Get r.octets (r.cursor + n.len + 8) with
        | panic => rw [h2] at hpk; cases hpk
        | err e => rw [h2] at hpk; cases hpk
        | ok v =>
          rw [h2] at hpk
          simp only at hpk
          by_cases hc : r.cursor + n.len + 10 + v > r.octets.size
          · simp only [hc, if_true] at hpk; cases hpk
          · simp only [hc, if_false] at hpk; cases hpk; rfl
      cases h5 : rdr (be16 r.octets (p.ownerEnd + 2)) (be16 r.octets p.ownerEnd) r.octets (p.ownerEnd + 10)
          (be16 r.octets (p.ownerEnd + 8)) with
      | panic => rw [h5] at hps; cases hps
      | err e => rw [h5] at hps; cases hps
      | ok rd =>
        rw [h5] at hps
        cases hps
        have hin := parse_inside _ _ _ hp
        unfold readRr
        rw [hp]
        simp only
        rw [hoe] at a6 h5
        rw [a6] at a7
        have r1 : readU16At r.octets (r.cursor + n.len) = .ok (be16 r.octets (r.cursor + n.len)) := by
          unfold readU16At; simp only [show ¬ (r.cursor + n.len > r.octets.size) by omega, if_false]
          simp only [show r.cursor + n.len + 2 ≤ r.octets.size by omega, if_true]
        have r2 : readU16At r.octets (r.cursor + n.len + 2) = .ok (be16 r.octets (r.cursor + n.len + 2)) := by
          unfold readU16At; simp only [show ¬ (r.cursor + n.len + 2 > r.octets.size) by omega, if_false]
          simp only [show r.cursor + n.len + 2 + 2 ≤ r.octets.size by omega, if_true]
        have r3 : readU32At r.octets (r.cursor + n.len + 4) = .ok (be32 r.octets (r.cursor + n.len + 4)) := by
          unfold readU32At; simp only [show ¬ (r.cursor + n.len + 4 > r.octets.size) by omega, if_false]
          simp only [show r.cursor + n.len + 4 + 4 ≤ r.octets.size by omega, if_true]
        have r4 : readU16At r.octets (r.cursor + n.len + 8) = .ok (be16 r.octets (r.cursor + n.len + 8)) := by
          unfold readU16At; simp only [show ¬ (r.cursor + n.len + 8 > r.octets.size) by omega, if_false]
          simp only [show r.cursor + n.len + 8 + 2 ≤ r.octets.size by omega, if_true]
        rw [r1]; simp only
        rw [r2]; simp only
        rw [r3]; simp only
        rw [r4]; simp only
        rw [h5, hoe, a6]

/-! ### the RDATA model of C18 provides what the reader needs -/

/-- `Rdata::read` of the RDATA model, seen through the reader's interface -/
def rdataModel : RdRead := fun c t msg cur len =>
  match Rdata.read c t msg cur len with
  | .ok b => .ok b.toList
  | .err e => .err e.toString
  | .panic => .panic

theorem C15_rdata_model_ok : RdReadOK rdataModel := by
  constructor
  · intro c t m cur len hl ho
    unfold rdataModel
    have := C18.C18_read_no_panic c t m cur len hl (by unfold Rdata.USIZE_MAX; omega)
    cases h : Rdata.read c t m cur len <;> simp_all
  · intro c t m cur len rd h
    unfold rdataModel at h
    cases h2 : Rdata.read c t m cur len with
    | ok b => exact (C18.C18_read_sound c t m cur len b h2).2.1
    | err e => rw [h2] at h; cases h
    | panic => rw [h2] at h; cases h

/-- **C15 for the real RDATA reader**: reading a record never panics -/
theorem C15_read_rr_total (r : Reader) (hi : Inv r) (hsz : SizeOK r) : (readRr rdataModel r).1 ≠ .panic :=
  C15_read_rr_no_panic rdataModel C15_rdata_model_ok r hi hsz

/-- … and what it returns is RDATA the C18 specification assigns to that region of the message
    (embedded names decompressed per RFC 1035 §4.1.4), validated -/
theorem C15_read_rr_rdata_spec (r : Reader) (hi : Inv r) (rr : Rr) (r' : Reader)
    (h : readRr rdataModel r = (.ok rr, r')) :
    ∃ rdpos rdlen, RrHeaderAt r.octets r.cursor rr.owner rr.rrType rr.cls rr.ttl rdpos rdlen r'.cursor ∧
      Spec.SpecRead rr.cls rr.rrType r.octets rdpos rdlen rr.rdata := by
  obtain ⟨rdpos, rdlen, hh, h5, _, _⟩ := (C15_read_rr_iff rdataModel C15_rdata_model_ok r hi rr r').mp h
  refine ⟨rdpos, rdlen, hh, ?_⟩
  unfold rdataModel at h5
  cases h2 : Rdata.read rr.cls rr.rrType r.octets rdpos rdlen with
  | ok b =>
    rw [h2] at h5
    have e : rr.rdata = b.toList := by
      simp only at h5; injection h5 with h5; exact h5.symm
    rw [e]
    exact (C18.C18_read_sound _ _ _ _ _ b h2).2
  | err e => rw [h2] at h5; cases h5
  | panic => rw [h2] at h5; cases h5

/-! ### mark / rewind -/

/-- `rewind` restores exactly the marked position and clears the mark; without a mark it panics
    (the one documented panic of the reader) -/
theorem C15_mark_rewind (r : Reader) : rewind (setMark r) = .ok { r with mark := none } := by
  simp [rewind, setMark]

theorem C15_rewind_panics_iff (r : Reader) : rewind r = .panic ↔ r.mark = none := by
  unfold rewind; cases r.mark <;> simp

/-! ### non-vacuity: a real query satisfies the hypotheses and is read -/

/-- header + question `. IN NS` -/
def exQuery : Bytes := #[0x12, 0x34, 0x01, 0x00, 0, 1, 0, 0, 0, 0, 0, 0, 0, 0, 2, 0, 1]

example : ∃ r, tryFrom exQuery = .ok r ∧ Inv r :=
  ⟨⟨exQuery, 12, none⟩, by simp [tryFrom, exQuery, Gen.HEADER_SIZE],
    by simp [Reader.Inv, exQuery, Gen.HEADER_SIZE]⟩

theorem exQuery_reads : (readQuestion ⟨exQuery, 12, none⟩).1 = .ok ⟨[0], 2, 1⟩ := by
  simp [readQuestion, parseCompressed, parseAux, exQuery, isPtr, Gen.MAX_LABEL_LEN, Gen.MAX_WIRE_LEN,
    Gen.MAX_N_LABELS, readU16At, be16]

end QV.C15
