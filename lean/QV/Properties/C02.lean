/-
  C02 — Every response is a well-formed DNS message.

  "Every response the server emits decodes completely under an independent RFC 1035 decoder: header
   counts match the records present, the message ends exactly after the last record, and every record
   and name is well formed. An OPT record appears at most once, in the additional section, and a TSIG
   record, if present, is the last record."

  Decoder: `QV.Spec.specDecodeMsg` (lean/QV/Spec/MsgDecode.lean), written from RFC 1035 §4.1 and
  independent of the writer: it succeeds only if QDCOUNT questions and ANCOUNT + NSCOUNT + ARCOUNT
  records decode (owner names via the RFC 1035 §4.1.4 relation of C14, fixed fields, RDLENGTH inside
  the message) and the message ends exactly after the last record. (The writer's own decoder,
  `QV.Spec.Message.specDecodeMsg`, additionally records pointer positions for C13 and rejects
  undecodable names inside RDATA; the driver compares the two on every audited response: tag
  `C02:decoders-disagree`.) Interpretation (DESIGN.md §6 C02): RDATA deliberately loaded malformed
  through the public zone API is copied verbatim; "record well formed" is structural.

  `respOK` is the executable form of the property; the driver evaluates it (as the audit tags
  `C02:…`) on the octets the *implementation* returns for every generated request, UDP and TCP.

  What is proved here:
    * `C02_counterexample` — the property as literally stated is FALSE for the code (defect D16,
      known finding): `HashMapTreeZone::add` accepts records of TYPE 41 (OPT) and 250 (TSIG) (only
      the zone-file parser rejects them) and a query for that type (or ANY) returns them in the
      answer section. The model reproduces the response octet for octet (kernel-evaluated).
    * `C02_response_is_finish` — a response is exactly `finish` of a writer state satisfying the
      writer invariant; hence
    * `C02_decodes_partial` — given the writer's refinement theorem in the form `WriterDecodes`
      (owner: C12), every response decodes completely, its counts are the writer's, and the
      pseudo-records `finish` appends are: one OPT iff EDNS was negotiated, then one TSIG, last, iff a
      TSIG was set.
  What is not proved: that no *other* record of type OPT/TSIG is written when the catalog holds
  none (`C02_full_without_pseudo_rrsets`); it needs the writer's refinement at record level
  (the decoded sections are the records of the successful `add_*` calls) composed with the fact —
  visible in `QV.Server`: the types passed to the writer are QTYPE-found, CNAME, NS, SOA, A, AAAA or
  the type of a stored RRset — and is covered meanwhile by the oracle on every generated case.
-/
import QV.Properties.C01
import QV.Spec.MsgDecode
import QV.Proofs.WriterSafe2

namespace QV.C02
open QV QV.Writer QV.Server QV.Reader QV.ServerSafety QV.Spec

/-- the property, executable: decodes completely; no OPT/TSIG outside the additional section; at
    most one OPT; at most one TSIG and then it is the last record -/
def respOK (b : Bytes) : Bool :=
  match specDecodeMsg b with
  | none => false
  | some d =>
    !((d.an ++ d.ns).any (fun r => r.ty = 41 || r.ty = 250)) &&
    decide ((d.ar.filter (fun r => r.ty = 41)).length ≤ 1) &&
    (match d.ar.filter (fun r => r.ty = 250) with
     | [] => true
     | [_] => d.ar.getLast?.map (·.ty) == some 250
     | _ => false)

/-- **C02 as stated**, for the RRL-less handler -/
def C02_full : Prop :=
  ∀ (cfg : Cfg) (tr : Transport) (now bufLen : Nat) (req b : Bytes), CfgWF cfg →
    EnvOK cfg tr now bufLen req → handleMessage cfg tr now bufLen req = .ok (some b) → respOK b = true

/-- no stored RRset has one of the pseudo-types -/
def NoPseudoRrsets (cfg : Cfg) : Prop :=
  ∀ ze ∈ cfg.zones, NodeOK (fun r => r.rtype ≠ 41 ∧ r.rtype ≠ 250) ze.zone.root

/-- C02 for catalogs without RRsets of type OPT / TSIG (the known finding D16 excluded) -/
def C02_full_without_pseudo_rrsets : Prop :=
  ∀ (cfg : Cfg) (tr : Transport) (now bufLen : Nat) (req b : Bytes), CfgWF cfg → NoPseudoRrsets cfg →
    EnvOK cfg tr now bufLen req → handleMessage cfg tr now bufLen req = .ok (some b) → respOK b = true

/-! ### the counterexample (defect D16) -/

/-- zone `a.` (IN) whose apex holds an RRset of TYPE 41 -/
def cxZone : Zone.Zone := ⟨[[97]], 1, .narrow, .mk [⟨41, 60, [[0, 1, 0, 2, 0xab, 0xcd]]⟩] []⟩
def cxCfg : Cfg := { payload := 512, zones := [⟨⟨[[97]]⟩, 1, .Loaded, cxZone⟩] }
/-- `a. IN TYPE41`, RD set -/
def cxReq : Bytes := #[0xaa, 0xaa, 0x01, 0x00, 0, 1, 0, 0, 0, 0, 0, 0, 1, 97, 0, 0, 41, 0, 1]
/-- what the real server answers (harness: corpus/C02/d16-opt-typed-zone-record.cases) -/
def cxResp : Bytes :=
  #[170, 170, 133, 0, 0, 1, 0, 1, 0, 0, 0, 0, 1, 97, 0, 0, 41, 0, 1, 192, 12, 0, 41, 0, 1, 0, 0, 0, 60, 0, 6,
    0, 1, 0, 2, 171, 205]

theorem cx_parse : Wire.parseCompressed cxReq 12 = .ok ⟨[1, 97, 0], 2, 3⟩ := by
  apply (C14.C14_parse_ok_iff cxReq 12 ⟨[1, 97, 0], 2, 3⟩).mpr
  refine ⟨?_, by decide⟩
  have h14 : Decodes cxReq 14 12 [0] 1 1 := Decodes.null (by decide) (by decide)
  exact Decodes.label (msg := cxReq) (pos := 12) (cs := 12) (w := [0]) (n := 1) (k := 1)
    (by decide) (by decide) (by decide) (by decide) h14

theorem cx_read : readQuestion ⟨cxReq, 12, none⟩ = (.ok ⟨[1, 97, 0], 41, 1⟩, ⟨cxReq, 19, none⟩) := by
  unfold readQuestion
  simp only [cx_parse]
  decide

/-- the model answers the query with the TYPE 41 record in the answer section -/
theorem cx_model : handleMessage cxCfg .udp 0 512 cxReq = .ok (some cxResp) := by
  unfold handleMessage handleWithContext
  have h0 : Reader.tryFrom cxReq = .ok ⟨cxReq, 12, none⟩ := by decide
  simp only [h0, cx_read]
  decide +kernel

theorem cx_not_ok : respOK cxResp = false := by decide +kernel

theorem cx_cfg_wf : CfgWF cxCfg := by
  refine ⟨by decide, fun ze hze => ?_⟩
  simp only [cxCfg, List.mem_singleton] at hze
  subst hze
  exact ⟨by decide, by decide,
    NodeOK.mk _ _ (fun r hr => by simp at hr; subst hr; simp) (fun _ _ h => by simp at h)⟩

/-- **C02 does not hold for the code as it is** (known finding D16): a zone that holds a record of
    TYPE 41 — accepted by the public zone API — is answered with an OPT-typed record in the answer
    section. -/
theorem C02_counterexample : ¬ C02_full := by
  intro h
  have := h cxCfg .udp 0 512 cxReq cxResp cx_cfg_wf ⟨by decide, by decide, by decide⟩ cx_model
  rw [cx_not_ok] at this
  cases this

/-! ### what is proved -/

/-- a response is the output of `finish` on a state satisfying the writer invariant -/
theorem C02_response_is_finish (W : WriterSafe) (cfg : Cfg) (hcfg : CfgWF cfg)
    (tr : Transport) (now bufLen : Nat) (req b : Bytes) (henv : EnvOK cfg tr now bufLen req)
    (h : handleMessage cfg tr now bufLen req = .ok (some b)) :
    ∃ w mac, W.I w ∧ Writer.finish w macFn = .ok (b, mac) :=
  C01.C01_response_is_finished_writer W cfg hcfg tr now bufLen req henv b h

/-- … with the writer's own theorems (`QV.Writer.writerSafe`, C12/C13) for `W`: a response is the
    output of `finish` on a state satisfying the writer invariant `QV.Writer.I`, and it is not longer
    than the limit in effect (C12 (b)) -/
theorem C02_response_is_finish_holds (cfg : Cfg) (hcfg : CfgWF cfg)
    (tr : Transport) (now bufLen : Nat) (req b : Bytes) (henv : EnvOK cfg tr now bufLen req)
    (h : handleMessage cfg tr now bufLen req = .ok (some b)) :
    ∃ w mac, Writer.I w ∧ Writer.finish w macFn = .ok (b, mac) ∧ b.size ≤ w.limit := by
  obtain ⟨w, mac, hi, hf⟩ := C02_response_is_finish Writer.writerSafe cfg hcfg tr now bufLen req b henv h
  exact ⟨w, mac, hi, hf, Writer.finish_size_le_limit macFn w hi.inv b mac hf⟩

/-- the writer's refinement theorem in the form C02 needs (to be discharged from C12): whatever
    `finish` returns from an invariant state decodes completely under the independent decoder, with
    the writer's counts, and the additional section ends with the pseudo-records `finish` appends —
    the OPT iff EDNS is set, then the TSIG iff a TSIG is set -/
structure WriterDecodes (W : WriterSafe) : Prop where
  finish_decodes : ∀ (w : State) (macFn : Writer.Tsig → List UInt8 → List UInt8) (b : Bytes)
    (mac : Option (List UInt8)), W.I w → MacLenOK macFn → Writer.finish w macFn = .ok (b, mac) →
    ∃ d, specDecodeMsg b = some d ∧
      d.questions.length = w.qdcount ∧ d.an.length = w.ancount ∧ d.ns.length = w.nscount ∧
      d.ar.length = w.arcount ∧
      ∃ body, d.ar.map (·.ty) = body ++ (if w.edns.isSome then [41] else []) ++ (if w.tsig.isSome then [250] else [])

/-- **every response decodes completely**, counts as the writer kept them, message ending exactly
    after the last record; the additional section ends with OPT (iff EDNS) then TSIG (iff TSIG) -/
theorem C02_decodes_partial (W : WriterSafe) (D : WriterDecodes W) (cfg : Cfg)
    (hcfg : CfgWF cfg) (tr : Transport) (now bufLen : Nat) (req b : Bytes)
    (henv : EnvOK cfg tr now bufLen req) (h : handleMessage cfg tr now bufLen req = .ok (some b)) :
    ∃ d w, specDecodeMsg b = some d ∧ W.I w ∧
      d.questions.length = w.qdcount ∧ d.an.length = w.ancount ∧ d.ns.length = w.nscount ∧
      d.ar.length = w.arcount ∧
      (w.tsig.isSome → (d.ar.getLast?.map (·.ty)) = some 250) ∧
      (w.tsig.isNone → w.edns.isSome → (d.ar.getLast?.map (·.ty)) = some 41) := by
  obtain ⟨w, mac, hi, hf⟩ := C02_response_is_finish W cfg hcfg tr now bufLen req b henv h
  obtain ⟨d, hd, q1, q2, q3, q4, body, hb⟩ := D.finish_decodes w macFn b mac hi (macLenOK_server hmacLenOK) hf
  refine ⟨d, w, hd, hi, q1, q2, q3, q4, fun ht => ?_, fun ht he => ?_⟩
  · have : (d.ar.map (·.ty)).getLast? = some 250 := by
      rw [hb]; simp [ht]
    simpa [List.getLast?_map] using this
  · have hn : w.tsig.isSome = false := by simpa using ht
    have : (d.ar.map (·.ty)).getLast? = some 41 := by
      rw [hb]; simp [hn, he]
    simpa [List.getLast?_map] using this

/-! ### the writer hypothesis discharged

  `QV.Writer.finish_decodes` (lean/QV/Proofs/WriterDecodes.lean) is the writer's refinement theorem in
  the form C02 needs, proved for every compression mode from the structural layout invariant `SLay`
  (every question and record starts with a name the independent decoder reads, RDLENGTH leads to the
  next record, the counts are those of the items) — which is part of the invariant of the second
  interface instance `QV.Writer.writerSafeL`, together with "the limit is at most 65535" (a DNS
  message is at most 65535 octets; the server asks for 65535 over TCP, 512 or the requestor's 16-bit
  payload size over UDP: `Call.Pre (.setLimit v) = v ≤ 65535`). With C12 (b) — a finished message is
  within the limit — no RDLENGTH field can wrap. -/

/-- **every response decodes completely** under the independent decoder, counts as the writer kept
    them, message ending exactly after the last record; the additional section ends with OPT (iff
    EDNS) then TSIG (iff TSIG) — no hypothesis on the writer, none on the size -/
theorem C02_decodes (cfg : Cfg) (hcfg : CfgWF cfg) (tr : Transport) (now bufLen : Nat)
    (req b : Bytes) (henv : EnvOK cfg tr now bufLen req)
    (h : handleMessage cfg tr now bufLen req = .ok (some b)) :
    ∃ d w, specDecodeMsg b = some d ∧ Writer.I w ∧ b.size ≤ 65535 ∧
      d.questions.length = w.qdcount ∧ d.an.length = w.ancount ∧ d.ns.length = w.nscount ∧
      d.ar.length = w.arcount ∧
      (w.tsig.isSome → (d.ar.getLast?.map (·.ty)) = some 250) ∧
      (w.tsig.isNone → w.edns.isSome → (d.ar.getLast?.map (·.ty)) = some 41) := by
  obtain ⟨w, mac, hi, hf⟩ := C02_response_is_finish Writer.writerSafeL cfg hcfg tr now bufLen req b henv h
  have hsz : b.size ≤ 65535 :=
    Nat.le_trans (Writer.finish_size_le_limit macFn w hi.1.inv b mac hf) hi.2.2
  obtain ⟨d, hd, q1, q2, q3, q4, body, hb⟩ := Writer.finish_decodes macFn w hi.1 hi.2.1 b mac hf hsz
  refine ⟨d, w, hd, hi.1, hsz, q1, q2, q3, q4, fun ht => ?_, fun ht he => ?_⟩
  · have : (d.ar.map (·.ty)).getLast? = some 250 := by
      rw [hb]; simp [ht]
    simpa [List.getLast?_map] using this
  · have hn : w.tsig.isSome = false := by simpa using ht
    have : (d.ar.map (·.ty)).getLast? = some 41 := by
      rw [hb]; simp [hn, he]
    simpa [List.getLast?_map] using this

end QV.C02
