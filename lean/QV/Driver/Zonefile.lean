import QV.Driver.Util

namespace QV.Driver
open QV

/-- ops of group `zonefile` — stub (not built yet) -/
def zonefileHandler : Handler := fun _ _ => none

end QV.Driver
