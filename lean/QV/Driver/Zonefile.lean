/-
  ops of group `zonefile` (C23, C24):

    zf  <preludehex> <inputhex> <chunk>            items of the in-memory parser (model ↔ impl)
    zfc <preludehex> <inputhex> <chunk>            C24 verdict: `ok` / `bad:<why>` / `panic` (spec: `ok`)
    zfp <preludehex> <inputhex> <chunk> <expected> C23: items; spec = `<expected>` (the record list
                                                   the harness's pretty-printer rendered)
    zfw <preludehex> <inputhex> <chunk> <expected> C23, group `zonewks` (files holding IN WKS records
                                                   with ports): `ok same <items>` if the items are the
                                                   expected ones, `ok wks-bits-reversed <items>` if they
                                                   become the expected ones once every bit-map octet of
                                                   every IN WKS record has its bits reversed (known
                                                   finding D18), else `ok differs <items>`;
                                                   spec = `ok same <expected>`
    zfv <preludehex> <inputhex> <chunk>            informational: the kind of the final error
    zf.u32|u16|u8|ipv4|ipv6|class|type|utf8 <hex>  the std / FromStr text parsers (model ↔ impl)

  The parser runs with the context left behind by parsing `<prelude>` from a default context
  (`Parser::new(prelude)` driven to its end, then `new_for_include(input, None)`): the only way
  to reach a non-default context through the public API.  `<chunk>`: `0` = the real parser reads
  from one buffer, `1..7` = through a `Read` that returns at most that many octets per call; a
  leading `r` selects the `RecordsOnly` iterator.  The model ignores the chunking.

  item syntax: `rec:<line>:<ownerhex>:<ttl>:<class>:<type>:<rdatahex>`,
  `inc:<line>:<pathhex>:<originhex|none>`, `err@<line>`; joined by `;` (`-` when empty).
-/
import QV.Driver.Util
import QV.Model.ZoneFile.Parser
import QV.Spec.ZoneFile

namespace QV.Driver
open QV QV.ZF

def showItem : Item → String
  | .record line r => s!"rec:{line}:{hexOfList r.owner}:{r.ttl}:{r.cls}:{r.ty}:{hexOfList r.rdata}"
  | .incl line path origin =>
    s!"inc:{line}:{hexOfList path}:{match origin with | some o => hexOfList o | none => "none"}"

def showYields (ys : List Yield) : String :=
  if ys.any (fun y => y == .panic) then "panic"
  else if ys.isEmpty then "ok -"
  else "ok " ++ ";".intercalate (ys.map fun
    | .item i => showItem i
    | .err e => s!"err@{e.line}"
    | .panic => "panic")

/-- drive a parser to its end, return its final state (`for _ in parser.by_ref() {}`) -/
def drain (p : Parser) : Parser :=
  match p.next with
  | (none, p') => p'
  | (some (.item _), p') => if p'.st.inp.length < p.st.inp.length then drain p' else p'
  | (some _, p') => p'
termination_by p.st.inp.length

def startParser (prelude input : List UInt8) : Parser :=
  (drain (Parser.new prelude)).newForInclude input none

def runZf (prelude input : List UInt8) (recordsOnly : Bool) : List Yield :=
  let p := startParser prelude input
  if recordsOnly then collectRecordsOnly p else collect p

/-- the C24 verdict on a yield list -/
def verdict (ys : List Yield) : String :=
  let rec go : List Yield → Option String
    | [] => none
    | .panic :: _ => some "panic"
    | .err _ :: rest => if rest.isEmpty then none else some "bad:yield-after-error"
    | .item (.incl _ _ origin) :: rest =>
      if (match origin with | some o => !vNameAll o | none => false) then some "bad:include-origin"
      else go rest
    | .item (.record _ r) :: rest =>
      if !vNameAll r.owner then some "bad:owner"
      else if r.ty == 10 || r.ty == 41 || r.ty == 250 then some "bad:type"
      else if !(validate r.cls r.ty r.rdata).isOk then some "bad:rdata"
      else go rest
  match go ys with
  | none => "ok"
  | some "panic" => "panic"
  | some s => s

/-- every bit-map octet of an IN WKS record with its bits in the opposite order -/
def revWks : Yield → Yield
  | .item (.record line r) =>
    if r.cls == 1 && r.ty == 11 then
      .item (.record line { r with rdata := r.rdata.take 5 ++ (r.rdata.drop 5).map Spec.ZF.revBits })
    else .item (.record line r)
  | y => y

def showYield : Yield → String
  | .item i => showItem i
  | .err e => s!"err@{e.line}"
  | .panic => "panic"

/-- the `zfw` verdict of a yield list against the expected items: item by item equal, or equal
    once the bit-map octets of an IN WKS record are bit-reversed -/
def wksVerdict (ys : List Yield) (expected : String) : String :=
  if ys.any (fun y => y == .panic) then "panic"
  else
    let a := ys.map showYield
    let r := (ys.map revWks).map showYield
    let e := if expected == "-" then [] else expected.splitOn ";"
    let body := if a.isEmpty then "-" else ";".intercalate a
    if a == e then "ok same " ++ body
    else if a.length == e.length && ((a.zip r).zip e).all (fun p => p.1.1 == p.2 || p.1.2 == p.2) then
      "ok wks-bits-reversed " ++ body
    else "ok differs " ++ body

def finalKind (ys : List Yield) : String :=
  match ys.getLast? with
  | some (.err e) => "err:" ++ (toString (repr e.kind)).replace "QV.ZF.Kind." ""
  | some .panic => "panic"
  | _ => "ok"

def chunkArg (s : String) : Option Bool :=
  let r := s.startsWith "r"
  let n := if r then s.drop 1 else s
  match n.toNat? with
  | some k => if k ≤ 7 then some r else none
  | none => none

def showOptNat : Option Nat → String
  | some n => s!"ok {n}"
  | none => "err"

def showOptBytes : Option (List UInt8) → String
  | some b => s!"ok {hexOfList b}"
  | none => "err"

/-- `str::from_utf8(field)?.parse()` -/
def viaUtf8 {α} (f : List UInt8 → Option α) (b : List UInt8) : Option α :=
  if utf8Valid b then f b else none

def zonefileHandler : Handler := fun op args =>
  match op, args with
  | "zf", [pre, inp, ch] =>
    match unhex pre, unhex inp, chunkArg ch with
    | some p, some i, some ro => some (showYields (runZf p.toList i.toList ro), "-")
    | _, _, _ => some bad
  | "zfc", [pre, inp, ch] =>
    match unhex pre, unhex inp, chunkArg ch with
    | some p, some i, some ro => some (verdict (runZf p.toList i.toList ro), "ok")
    | _, _, _ => some bad
  | "zfp", [pre, inp, ch, expected] =>
    match unhex pre, unhex inp, chunkArg ch with
    | some p, some i, some ro => some (showYields (runZf p.toList i.toList ro), "ok " ++ expected)
    | _, _, _ => some bad
  | "zfw", [pre, inp, ch, expected] =>
    match unhex pre, unhex inp, chunkArg ch with
    | some p, some i, some ro => some (wksVerdict (runZf p.toList i.toList ro) expected, "ok same " ++ expected)
    | _, _, _ => some bad
  | "zfv", [pre, inp, ch] =>
    match unhex pre, unhex inp, chunkArg ch with
    | some p, some i, some ro => some (finalKind (runZf p.toList i.toList ro), "-")
    | _, _, _ => some bad
  | "zf.u32", [h] => (unhex h).map fun b => (showOptNat (viaUtf8 parseU32 b.toList), "-")
  | "zf.u16", [h] => (unhex h).map fun b => (showOptNat (viaUtf8 parseU16 b.toList), "-")
  | "zf.u8", [h] => (unhex h).map fun b => (showOptNat (viaUtf8 parseU8 b.toList), "-")
  | "zf.ipv4", [h] => (unhex h).map fun b => (showOptBytes (viaUtf8 parseIpv4 b.toList), "-")
  | "zf.ipv6", [h] => (unhex h).map fun b => (showOptBytes (viaUtf8 parseIpv6 b.toList), "-")
  | "zf.class", [h] => (unhex h).map fun b => (showOptNat (viaUtf8 parseClass b.toList), "-")
  | "zf.type", [h] => (unhex h).map fun b => (showOptNat (viaUtf8 parseType b.toList), "-")
  | "zf.utf8", [h] => (unhex h).map fun b => (if utf8Valid b.toList then "ok 1" else "ok 0", "-")
  | _, _ => none

end QV.Driver
