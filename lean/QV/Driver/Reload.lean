import QV.Driver.Util

namespace QV.Driver
open QV

/-- ops of group `reload` — stub (not built yet) -/
def reloadHandler : Handler := fun _ _ => none

end QV.Driver
