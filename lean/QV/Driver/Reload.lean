/-
  Driver ops of group `reload` (C31).

    rl <step>/<step>/…      one whole history of the daemon: start-up load, then one reload per step

  step    = <zones>@<files>
  zones   = `-` | zone{,zone}        zone = <namehex>:<class>:<path>       (path = a small number)
  files   = `-` | file{,file}        file = <path>:<mtime>:<content>       (all files that exist)
  content = ok.<id>.<apexhex>.<class>   a valid zone file for that apex/class whose SOA serial is <id>
          | inv.<apexhex>.<class>       parses, but validation fails (no NS at the apex)
          | bad                         not a zone file

  A step whose zone list configures a (name, class) twice is a configuration error
  (`config::find_duplicated_zone`): the daemon keeps its catalog. A file loads for a zone
  configuration iff it is `ok` and its apex and class are the configured ones.

  Reply, both columns: `ok <per step>;…`, per step `<g1>,…,<gn>|<l1>,…,<ln>` over the n distinct
  (name, class) keys configured anywhere in the history, in order of first appearance:
  gi = state of key i by exact `get`, li = state of the entry answering `x.<name i>` (`lookup`);
  state = `-` (none) | `F` (SERVFAIL placeholder) | `L<id>` (serving data <id>).

    daemon <history>        the same history run against the real `quandaryd` process (SIGHUP,
                            UDP): per step `<a1>,…,<an>`, ai = state of the entry that answers
                            the name of key i itself (longest match). Model column: the signal
                            loop `loopRun codeShape` with the plumbing extracted from run.rs.
    daemonskip <history>    a daemon history the harness could not synchronise: `discarded`, no
                            constraint

  Model column: `QV.Model.Reload.daemonStep` on the catalog model. Spec column: the per-zone
  rule `QV.Spec.Reload.specStep` folded over each key's own view (`viewOf`), longest match by
  `QV.Spec.Catalog.specLookup`; `-` (no constraint) when the history violates the environment
  assumption `MtimeSound` for some key (a file changed content without getting a newer mtime).
-/
import QV.Driver.Util
import QV.Driver.Catalog
import QV.Model.ReloadView

namespace QV.Driver
open QV QV.Catalog QV.Reload

namespace Rl

inductive Content where
  | ok (id : Nat) (apex : DName) (cls : Nat)
  | inv
  | bad

structure File where
  path : Nat
  mtime : Nat
  content : Content

def parseContent (s : String) : Option Content :=
  match s.splitOn "." with
  | ["bad"] => some .bad
  | ["inv", _, _] => some .inv
  | ["ok", i, a, c] => do
    let i ← i.toNat?
    let a ← Cat.parseName a
    let c ← c.toNat?
    pure (.ok i a c)
  | _ => none

def parseFile (s : String) : Option File :=
  match s.splitOn ":" with
  | [p, m, c] => do
    let p ← p.toNat?
    let m ← m.toNat?
    let c ← parseContent c
    pure ⟨p, m, c⟩
  | _ => none

def parseZone (s : String) : Option ZoneConfig :=
  match s.splitOn ":" with
  | [n, c, p] => do
    let n ← Cat.parseName n
    let c ← c.toNat?
    let p ← p.toNat?
    pure ⟨n, c, p⟩
  | _ => none

def parseList {α} (f : String → Option α) (s : String) : Option (List α) :=
  if s = "-" then some [] else (s.splitOn ",").mapM f

def mkFS (files : List File) : FS where
  stat := fun p =>
    match files.find? (·.path = p) with
    | some f => .ok f.mtime
    | none => .err
  load := fun zc =>
    match files.find? (·.path = zc.path) with
    | some f =>
      match f.content with
      | .ok i apex c => if lowerName apex = lowerName zc.name ∧ c = zc.cls then .ok i else .fail
      | _ => .fail
    | none => .fail

def hasDup : List Spec.Catalog.Key → Bool
  | [] => false
  | k :: r => r.contains k || hasDup r

def parseStep (s : String) : Option Step :=
  match s.splitOn "@" with
  | [z, f] => do
    let zones ← parseList parseZone z
    let files ← parseList parseFile f
    -- config.rs: "the zone {name}/{class} is configured more than once"
    if hasDup (zones.map cfgKey) then pure .configError else pure (.reload zones (mkFS files))
  | _ => none

def zonesOf (s : String) : List ZoneConfig :=
  match s.splitOn "@" with
  | [z, _] => (parseList parseZone z).getD []
  | _ => []

def dedup : List (DName × Nat) → List (DName × Nat) → List (DName × Nat)
  | acc, [] => acc.reverse
  | acc, x :: r =>
    if acc.any (fun y => y.2 = x.2 ∧ lowerName y.1 = lowerName x.1) then dedup acc r else dedup (x :: acc) r

def showState : Option Spec.Reload.SZone → String
  | none => "-"
  | some .failed => "F"
  | some (.good d _ _) => s!"L{d}"

def xLabel : Label := [120]

def showStep (g l : List (Option Spec.Reload.SZone)) : String :=
  ",".intercalate (g.map showState) ++ "|" ++ ",".intercalate (l.map showState)

/-- model column: the catalog after each step -/
def runModel (keys : List (DName × Nat)) : Option Catalog → List Step → List String
  | _, [] => []
  | st, s :: r =>
    let st' := daemonStep st s
    let g := keys.map (fun k => (st'.bind (fun c => get c k.1 k.2)).map stateOf)
    let l := keys.map (fun k => (st'.bind (fun c => lookup c (xLabel :: k.1) k.2)).map stateOf)
    showStep g l :: runModel keys st' r

open QV.Spec.Reload QV.Spec.Catalog in
/-- spec column: each key's state evolves by `specStep` on its own view; `none` as soon as the
    environment assumption fails for some key -/
def runSpec (keys : List (DName × Nat)) :
    List (Option SZone) → List Step → Option (List String)
  | _, [] => some []
  | prev, s :: r =>
    let views := keys.map (fun k => viewOf (k.2, foldName k.1) s)
    let sound := (prev.zip views).all (fun pv =>
      match pv.2 with
      | .configured v => decide (MtimeSound pv.1 v)
      | _ => true)
    if !sound then none else
    let cur := (prev.zip views).map (fun pv => specStep pv.1 pv.2)
    -- the finite map (class × name) ⇀ state of the zones that are served
    let m : SMap SZone := (keys.zip cur).filterMap (fun kc =>
      match kc.2 with
      | some z => some ((kc.1.2, foldName kc.1.1), z)
      | none => none)
    let l := keys.map (fun k => specLookup m (xLabel :: k.1) k.2)
    (runSpec keys cur r).map (showStep cur l :: ·)

/-- model column of `daemon`: what the server answers from after each step of the signal loop -/
def runLoop (keys : List (DName × Nat)) : DState → List Step → List String
  | _, [] => []
  | st, s :: r =>
    let st' := loopStep codeShape Cat.empty st s
    let a := keys.map (fun k => (st'.served.bind (fun c => lookup c k.1 k.2)).map stateOf)
    ",".intercalate (a.map showState) :: runLoop keys st' r

open QV.Spec.Reload QV.Spec.Catalog in
/-- spec column of `daemon`: the per-zone rule on each key's own view, then longest match -/
def runSpecAnswering (keys : List (DName × Nat)) :
    List (Option SZone) → List Step → Option (List String)
  | _, [] => some []
  | prev, s :: r =>
    let views := keys.map (fun k => viewOf (k.2, foldName k.1) s)
    let sound := (prev.zip views).all (fun pv =>
      match pv.2 with
      | .configured v => decide (MtimeSound pv.1 v)
      | _ => true)
    if !sound then none else
    let cur := (prev.zip views).map (fun pv => specStep pv.1 pv.2)
    let m : SMap SZone := (keys.zip cur).filterMap (fun kc =>
      match kc.2 with
      | some z => some ((kc.1.2, foldName kc.1.1), z)
      | none => none)
    let a := keys.map (fun k => specLookup m k.1 k.2)
    (runSpecAnswering keys cur r).map (",".intercalate (a.map showState) :: ·)

end Rl

open Rl in
def reloadHandler : Handler := fun op args =>
  match op, args with
  | "rl", [h] =>
    let parts := h.splitOn "/"
    match parts.mapM parseStep with
    | some steps =>
      let keys := dedup [] ((parts.flatMap zonesOf).map (fun zc => (zc.name, zc.cls)))
      let m := "ok " ++ ";".intercalate (runModel keys none steps)
      let s := match runSpec keys (keys.map (fun _ => none)) steps with
        | some rs => "ok " ++ ";".intercalate rs
        | none => "-"
      some (m, s)
    | none => some bad
  | "daemon", [h] =>
    let parts := h.splitOn "/"
    match parts.mapM parseStep with
    | some steps =>
      let keys := dedup [] ((parts.flatMap zonesOf).map (fun zc => (zc.name, zc.cls)))
      let m := "ok " ++ ";".intercalate (runLoop keys ⟨none, none⟩ steps)
      let s := match runSpecAnswering keys (keys.map (fun _ => none)) steps with
        | some rs => "ok " ++ ";".intercalate rs
        | none => "-"
      some (m, s)
    | none => some bad
  | "daemonskip", [_] => some ("discarded", "-")
  | _, _ => none

end QV.Driver
