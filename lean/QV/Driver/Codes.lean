import QV.Driver.Util
import QV.Model.Codes
import QV.Spec.Codes

namespace QV.Driver
open QV QV.Codes QV.Spec.Codes

/-- ops of group `codes` (C17); text arguments are the hex of the UTF-8 octets -/
private def kindArg (s : String) : Option Kind :=
  if s = "t" then some .type else if s = "c" then some .class
  else if s = "qt" then some .qtype else if s = "qc" then some .qclass else none

private def mParse : Kind → Text → Out ParseErr Nat
  | .type => typeFromStr
  | .class => classFromStr
  | .qtype => qtypeFromStr
  | .qclass => qclassFromStr

private def mDisplay : Kind → Nat → Text
  | .type => typeDisplay
  | .class => classDisplay
  | .qtype => qtypeDisplay
  | .qclass => qclassDisplay

def codesHandler : Handler := fun op args =>
  match op, args with
  | "crt", [k, v] =>
    match kindArg k, natArg v with
    | some kd, some n =>
      if n < 65536 then
        some (showOut ParseErr.toString toString (mParse kd (mDisplay kd n)), s!"ok {n}")
      else some bad
    | _, _ => some bad
  | "cpres", [k, v, h] =>
    -- the text is what the implementation printed for `v` (a recorded input): the model must
    -- print the same, and the spec demands that it *presents* `v` (RFC 3597 §5 / registry)
    match kindArg k, natArg v, unhex h with
    | some kd, some n, some t =>
      if n < 65536 then
        some (if mDisplay kd n = t.toList then "ok" else "differs:" ++ hexOfList (mDisplay kd n),
              if specParse kd t.toList = some n then "ok" else "err")
      else some bad
    | _, _, _ => some bad
  | "cparse", [k, h] =>
    match kindArg k, unhex h with
    | some kd, some t =>
      some (showOut ParseErr.toString toString (mParse kd t.toList),
            match specParse kd t.toList with
            | some v => s!"ok {v}"
            | none => "-")
    | _, _ => some bad
  | "copc", [x] =>
    match natArg x with
    | some n => if n < 256 then some (showOpt toString (opcodeTryFrom n), showOpt toString (specFourBit n)) else some bad
    | none => some bad
  | "crc", [x] =>
    match natArg x with
    | some n => if n < 256 then some (showOpt toString (rcodeTryFrom n), showOpt toString (specFourBit n)) else some bad
    | none => some bad
  | "cext", [x] =>
    match natArg x with
    | some n => if n < 65536 then some (showOpt toString (rcodeFromExt n), showOpt toString (specFourBit n)) else some bad
    | none => some bad
  | _, _ => none

end QV.Driver
