import QV.Driver.Util

namespace QV.Driver
open QV

/-- ops of group `codes` — stub (not built yet) -/
def codesHandler : Handler := fun _ _ => none

end QV.Driver
