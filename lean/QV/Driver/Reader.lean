import QV.Driver.Util

namespace QV.Driver
open QV

/-- ops of group `reader` — stub (not built yet) -/
def readerHandler : Handler := fun _ _ => none

end QV.Driver
