import QV.Driver.Util
import QV.Model.Reader
import QV.Spec.Reader
import QV.Model.Rdata
import QV.Spec.Rdata

/-!
  group `reader` — one line = one session:  `reader <msghex> <op>;<op>;…`
  ops: hdr rq sq rr sr pk pks pkp mark rewind eom mtc
  result: one element per op, joined by `;`, each `<result>@<cursor after the op>`.
  spec column: same shape; `?` = the spec does not constrain this element beyond "no panic"
  (lenient skipping of something that does not fully decode; everything after the position became
  unknown); `!` = must panic (rewind without a mark, the one documented panic).
-/
namespace QV.Driver
open QV QV.Wire QV.Reader QV.Spec

/-- `Rdata::read` as used by the driver: the RDATA model of C18 -/
def drvRdRead : RdRead := fun c t msg cur len =>
  match Rdata.read c t msg cur len with
  | .ok b => .ok b.toList
  | .err e => .err e.toString
  | .panic => .panic

def showHdr (r : Reader) : String :=
  let f {α} (o : Out ReaderErr α) (s : α → String) : String := match o with
    | .ok a => s a | .err _ => "err" | .panic => "panic"
  let b (x : Bool) := if x then "1" else "0"
  s!"ok {f (msgId r) toString} {f (qr r) b} {f (opcode r) toString} {f (aa r) b} {f (tc r) b} {f (rd r) b} {f (ra r) b} {f (rcode r) toString} {f (qdcount r) toString} {f (ancount r) toString} {f (nscount r) toString} {f (arcount r) toString}"

def showQ (q : Question) : String := s!"{hexOfList q.qname} {q.qtype} {q.qclass}"
def showRr (x : Rr) : String := s!"{hexOfList x.owner} {x.rrType} {x.cls} {x.ttl} {hexOfList x.rdata}"

def showPeek (p : PeekRr) : String :=
  let f (o : Out ReaderErr Nat) : String := match o with
    | .ok a => toString a | .err _ => "err" | .panic => "panic"
  let own := match p.owner with
    | .ok w => hexOfList w | .err e => "err:" ++ e.toString | .panic => "panic"
  s!"{f p.rrType} {f p.cls} {f p.ttl} {f p.rawTtl} {f p.rdlength} {own}"

def readerStep (rdr : RdRead) (r : Reader) (op : String) : String × Reader :=
  let fin {α} (res : Out ReaderErr α × Reader) (s : α → String) : String × Reader :=
    (showOut ReaderErr.toString s res.1 ++ s!"@{res.2.cursor}", res.2)
  match op with
  | "hdr" => (showHdr r ++ s!"@{r.cursor}", r)
  | "rq" => fin (readQuestion r) showQ
  | "sq" => fin (skipQuestion r) (fun _ => "")
  | "rr" => fin (readRr rdr r) showRr
  | "sr" => fin (skipRr r) (fun _ => "")
  | "pk" => match peekRr r with
    | .ok p => ("ok " ++ showPeek p ++ s!"@{r.cursor}", r)
    | .err e => ("err:" ++ e.toString ++ s!"@{r.cursor}", r)
    | .panic => (s!"panic@{r.cursor}", r)
  | "pks" => match peekRr r with
    | .ok p => (s!"ok @{p.skip.cursor}", p.skip)
    | .err e => ("err:" ++ e.toString ++ s!"@{r.cursor}", r)
    | .panic => (s!"panic@{r.cursor}", r)
  | "pkp" => match peekRr r with
    | .ok p => fin (p.parse rdr) showRr
    | .err e => ("err:" ++ e.toString ++ s!"@{r.cursor}", r)
    | .panic => (s!"panic@{r.cursor}", r)
  | "mark" => (s!"ok @{r.cursor}", setMark r)
  | "rewind" => match rewind r with
    | .ok r' => (s!"ok @{r'.cursor}", r')
    | _ => (s!"panic@{r.cursor}", r)
  | "eom" => (s!"ok {if atEom r then 1 else 0}@{r.cursor}", r)
  | "mtc" => match messageToCursor r with
    | .ok b => (s!"ok {b.size}@{r.cursor}", r)
    | _ => (s!"panic@{r.cursor}", r)
  | _ => ("bad-op", r)

/-- spec state: position (`none` = unknown), whether a mark is set, and its position if known -/
structure SpecSt where
  pos : Option Nat
  markSet : Bool
  markPos : Option Nat

def specStep (rdspec : Nat → Nat → Bytes → Nat → Nat → Option (Option (List UInt8)))
    (msg : Bytes) (st : SpecSt) (op : String) : String × SpecSt :=
  match op with
  | "mark" =>
    ((match st.pos with | some p => s!"ok @{p}" | none => "?"), { st with markSet := true, markPos := st.pos })
  | "rewind" =>
    if st.markSet then
      ((match st.markPos with | some m => s!"ok @{m}" | none => "?"),
       { pos := st.markPos, markSet := false, markPos := none })
    else
      -- documented: rewinding without a mark panics
      ((match st.pos with | some p => s!"panic@{p}" | none => "!"), st)
  | _ =>
  match st.pos with
  | none => ("?", st)
  | some pos =>
    match op with
    | "hdr" =>
      let b (i : Nat) (mask : Nat) := if ((msg.getD i 0).toNat &&& mask) != 0 then "1" else "0"
      let w (i : Nat) := (msg.getD i 0).toNat * 256 + (msg.getD (i+1) 0).toNat
      (s!"ok {w 0} {b 2 128} {((msg.getD 2 0).toNat / 8) % 16} {b 2 4} {b 2 2} {b 2 1} {b 3 128} {(msg.getD 3 0).toNat % 16} {w 4} {w 6} {w 8} {w 10}@{pos}", st)
    | "rq" => match specQuestionAt msg pos with
      | some (w, t, c, nx) => (s!"ok {hexOfList w} {t} {c}@{nx}", { st with pos := some nx })
      | none => (s!"err@{pos}", st)
    | "sq" => match specQuestionAt msg pos with
      | some (_, _, _, nx) => (s!"ok @{nx}", { st with pos := some nx })
      | none => ("?", { st with pos := none })
    | "sr" | "pks" => match specRrHeaderAt msg pos with
      | some (_, _, _, _, _, _, nx) => (s!"ok @{nx}", { st with pos := some nx })
      | none => ("?", { st with pos := none })
    | "pk" => match specRrHeaderAt msg pos with
      | some (w, t, c, ttl, _, rdlen, _) =>
        let raw := match specField32 msg (pos + (match specDecodeName msg pos with | some (_, _, k) => k | none => 0) + 4) with
          | some r => r | none => 0
        (s!"ok {t} {c} {ttl} {raw} {rdlen} {hexOfList w}@{pos}", st)
      | none => ("?", st)
    | "rr" | "pkp" => match specRrHeaderAt msg pos with
      | some (w, t, c, ttl, rdpos, rdlen, nx) =>
        match rdspec c t msg rdpos rdlen with
        | some (some rd) => (s!"ok {hexOfList w} {t} {c} {ttl} {hexOfList rd}@{nx}", { st with pos := some nx })
        | some none => (s!"err@{pos}", st)
        | none => ("?", { st with pos := none })
      | none => (s!"err@{pos}", st)
    | "eom" => (s!"ok {if pos ≥ msg.size then 1 else 0}@{pos}", st)
    | "mtc" => (s!"ok {pos}@{pos}", st)
    | _ => ("bad-op", st)

/-- RDATA spec used by the reader's oracle: the executable RFC reading of C18 (`specRead`) -/
def drvRdSpec : Nat → Nat → Bytes → Nat → Nat → Option (Option (List UInt8)) := fun c t msg cur len =>
  some (Spec.specRead c t msg cur len)

def readerHandler : Handler := fun op args =>
  match op, args with
  | "reader", [m, script] =>
    match unhex m with
    | some msg =>
      let ops := script.splitOn ";"
      let model : String := match tryFrom msg with
        | .ok r0 =>
          let (outs, _) := ops.foldl (fun (acc : List String × Reader) o =>
            let (s, r') := readerStep drvRdRead acc.2 o
            (s :: acc.1, r')) ([], r0)
          ";".intercalate outs.reverse
        | .err e => "err:" ++ e.toString
        | .panic => "panic"
      let spec : String :=
        if msg.size < 12 then "err" else
          let (outs, _) := ops.foldl (fun (acc : List String × SpecSt) o =>
            let (s, st') := specStep drvRdSpec msg acc.2 o
            (s :: acc.1, st')) ([], ⟨some 12, false, none⟩)
          ";".intercalate outs.reverse
      some (model, spec)
    | none => some bad
  | _, _ => none

end QV.Driver
