/-
  QV.Driver.Util — helpers for the line protocol (DESIGN.md appendix A).

  One case per line: `<op> <arg> <arg> …` (single spaces). The driver answers with one line
  `<model result>\t<spec result>`; `-` as a spec result means "the spec puts no constraint on
  this case". Byte strings are lower-case hex (`-` = empty); integers are decimal.
-/
import QV.Prelude

namespace QV.Driver
open QV

/-- a handler recognises some ops and returns `(model, spec)` result strings -/
abbrev Handler := String → List String → Option (String × String)

def showOut {ε α} (se : ε → String) (sa : α → String) : Out ε α → String
  | .ok a => "ok " ++ sa a
  | .err e => "err:" ++ se e
  | .panic => "panic"

def showOpt {α} (sa : α → String) : Option α → String
  | some a => "ok " ++ sa a
  | none => "err"

def bad : String × String := ("bad-op", "bad-op")

def natArg (s : String) : Option Nat := s.toNat?

def boolArg (s : String) : Option Bool :=
  if s = "1" then some true else if s = "0" then some false else none

end QV.Driver
