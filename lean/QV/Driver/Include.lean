import QV.Driver.Util

namespace QV.Driver
open QV

/-- ops of group `include` — stub (not built yet) -/
def includeHandler : Handler := fun _ _ => none

end QV.Driver
