/-
  ops of group `include` (C25):

    inc     <maxdepth> <fs> <mainhex>             items of `fs::Parser` (model: the stack machine;
                                                  spec: the recursive include semantics)
    incflat <maxdepth> <fs> <mainhex> <flathex>   "textual inclusion": the records of the file
                                                  tree = the records of the flattened single file
                                                  (`ok same` / `differ …`; spec: `ok same`)

  `<fs>`: `pathhex=contenthex,…` with canonical paths (relative to the working directory of the
  harness, or absolute).  Files are printed by canonical path:
  `rec:<pathhex>:<line>:<ownerhex>:<ttl>:<class>:<type>:<rdatahex>`,
  `err:<Syntax|IncludesTooDeep|FailedToOpenInclude|InvalidPath>@<pathhex>:<line>`.
-/
import QV.Driver.Util
import QV.Driver.Zonefile
import QV.Model.Include
import QV.Spec.Include

namespace QV.Driver
open QV QV.ZF QV.Inc

def parseFs (s : String) : Option FS :=
  if s = "-" then some [] else
  (s.splitOn ",").mapM fun ent =>
    match ent.splitOn "=" with
    | [p, c] => do
      let pb ← unhex p
      let cb ← unhex c
      pure (pb.toList, cb.toList)
    | _ => none

abbrev Key := Bool × List (List UInt8)

def showKey (k : Key) : String :=
  let body := ([47] : List UInt8).intercalate k.2
  hexOfList (if k.1 then 47 :: body else body)

/-- canonical key of a path as the OS resolves it -/
def canonKey (fs : FS) (p : Path) : Option Key :=
  let abs := p.head? == some 47
  (walk fs abs (splitComps p) []).map fun c => (abs, c)

def showPath (fs : FS) (p : Path) : String :=
  match canonKey fs p with
  | some k => showKey k
  | none => "?" ++ hexOfList p

def showRec (r : Rec) : String := s!"{hexOfList r.owner}:{r.ttl}:{r.cls}:{r.ty}:{hexOfList r.rdata}"

def showFsKind : FsErrKind → String
  | .Syntax _ => "Syntax"
  | .IncludesTooDeep => "IncludesTooDeep"
  | .InvalidPath => "InvalidPath"
  | .FailedToOpenInclude => "FailedToOpenInclude"
  | .ModelStuck => "ModelStuck"

def joinItems (l : List String) : String := if l.isEmpty then "ok -" else "ok " ++ ";".intercalate l

def showFsYields (fs : FS) (ys : List FsYield) : String :=
  if ys.any (fun y => y == .panic) then "panic"
  else joinItems (ys.map fun
    | .record p line r => s!"rec:{showPath fs p}:{line}:{showRec r}"
    | .err p k line => s!"err:{showFsKind k}@{showPath fs p}:{line}"
    | .panic => "panic")

/-- the specification's resolution of an include path: against the directory of the including
    file (absolute paths from the root), component by component as the OS does -/
def specResolve (fs : FS) (file : Key) (ipath : List UInt8) : Option (Key × List UInt8) :=
  if ipath.isEmpty then none else
  let abs := ipath.head? == some 47
  let startAbs := if abs then true else file.1
  let startDir := if abs then [] else file.2.dropLast.reverse
  match walk fs startAbs (splitComps ipath) startDir with
  | some comps =>
    let last := (splitComps ipath).getLast?.getD []
    if last.isEmpty || last == [46] || last == [46, 46] then none
    else match fs.find? (fun e => keyComps e.1 == (startAbs, comps)) with
      | some e => some ((startAbs, comps), e.2)
      | none => none
  | none => none

def showSpecKind : QV.Spec.Inc.SErr → String
  | .Syntax _ => "Syntax"
  | .IncludesTooDeep => "IncludesTooDeep"
  | .FailedToOpenInclude => "FailedToOpenInclude"
  | .Stuck => "ModelStuck"

def showSpecYields (ys : List (QV.Spec.Inc.SY Key)) : String :=
  if ys.any (fun y => match y with | .panic => true | _ => false) then "panic"
  else joinItems (ys.map fun
    | .record k line r => s!"rec:{showKey k}:{line}:{showRec r}"
    | .err k kind line => s!"err:{showSpecKind kind}@{showKey k}:{line}"
    | .panic => "panic")

def recsOfFs (ys : List FsYield) : List String :=
  ys.map fun
    | .record _ _ r => "rec:" ++ showRec r
    | .err _ _ _ => "err"
    | .panic => "panic"

def recsOfMem (ys : List Yield) : List String :=
  ys.map fun
    | .item (.record _ r) => "rec:" ++ showRec r
    | .item (.incl _ _ _) => "inc"
    | .err _ => "err"
    | .panic => "panic"

def includeHandler : Handler := fun op args =>
  match op, args with
  | "inc", [d, fsS, mainS] =>
    match natArg d, parseFs fsS, unhex mainS with
    | some depth, some fs, some mainB =>
      let main := mainB.toList
      match openFile fs main, canonKey fs main with
      | some content, some key =>
        let m := FsParser.start main content depth
        some (showFsYields fs (runFs (resolveFs fs) (fsBound fs) m),
              showSpecYields (QV.Spec.Inc.readTree (specResolve fs) depth key content))
      | _, _ => some ("open-failed", "open-failed")
    | _, _, _ => some bad
  | "incflat", [d, fsS, mainS, flatS] =>
    match natArg d, parseFs fsS, unhex mainS, unhex flatS with
    | some depth, some fs, some mainB, some flat =>
      let main := mainB.toList
      match openFile fs main with
      | some content =>
        let a := recsOfFs (runFs (resolveFs fs) (fsBound fs) (FsParser.start main content depth))
        let b := recsOfMem (collect (Parser.new flat.toList))
        some (if a == b then "ok same" else s!"differ {a.length} {b.length}", "ok same")
      | none => some ("open-failed", "open-failed")
    | _, _, _, _ => some bad
  | _, _ => none

end QV.Driver
