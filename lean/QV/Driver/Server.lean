import QV.Driver.Util
import QV.Spec.Server
import QV.Model.Server

/-!
  group `server`
    aud <payload> <catalog> <reqhex> <udp> <tcp>   (udp/tcp = response hex | none | panic)
        model column: `ok`; spec column: `tags:` followed by the comma-separated audit findings
        (`Cxx:reason`); the check of property Cxx fails on a line whose tags mention Cxx.
    srv <u|t> <payload> <catalog> <reqhex>          (model of handle_message; see Model/Server.lean)
-/
namespace QV.Driver
open QV QV.Spec QV.Spec.Server

def parseRec (s : String) : Option Rec :=
  match s.splitOn "/" with
  | [o, t, ttl, rd] => do
    let o ← unhex o
    let t ← t.toNat?
    let ttl ← ttl.toNat?
    let rd ← unhex rd
    pure ⟨o.toList, t, ttl, rd.toList⟩
  | _ => none

def parseZone (s : String) : Option ZoneCfg :=
  match s.splitOn ":" with
  | [k, apex, cls, glue, recs] => do
    let kind ← (if k = "L" then some ZoneKind.loaded else if k = "N" then some .notYetLoaded
                else if k = "F" then some .failedToLoad else none)
    let apex ← unhex apex
    let cls ← cls.toNat?
    let rs ← if recs = "-" then some [] else (recs.splitOn ",").mapM parseRec
    pure ⟨kind, apex.toList, cls, glue = "1", rs⟩
  | _ => none

def parseCatalog (s : String) : Option (List ZoneCfg) :=
  if s = "-" then some [] else (s.splitOn "|").mapM parseZone

def parseResp (s : String) : Option Resp :=
  if s = "none" then some .none else if s = "panic" then some .panic else (unhex s).map .bytes

def serverHandler : Handler := fun op args =>
  match op, args with
  | "aud", [payload, cat, req, u, t] =>
    match payload.toNat?, parseCatalog cat, unhex req, parseResp u, parseResp t with
    | some p, some c, some r, some ur, some tr =>
      let sc := specScan c p r
      let v := if !sc.respond then "no-response" else match sc.verdict with
        | .formErr => "formerr" | .badVers => "badvers" | .tsigReached => "tsig" | .notImp => "notimp"
        | .refused => "refused" | .servFailZone => "servfail-zone" | .answer => "answer"
      some ("ok", "tags:" ++ ",".intercalate (audit c p r ur tr) ++ s!"#{v}{if sc.edns then "+edns" else ""}")
    | _, _, _, _, _ => some bad
  | _, _ => none

end QV.Driver

/-! ### `srv`: the server model -/
namespace QV.Driver
open QV QV.Spec.Server

/-- `Rdata::equals` for zone de-duplication -/
def srvEqv : Zone.Eqv := fun c t a b =>
  match Rdata.equals c t a.toArray b.toArray with
  | .ok r => r
  | _ => false

def mkZoneEntry (z : ZoneCfg) : Option Server.ZoneEntry := do
  let (apexW, rest) ← Writer.WName.parse z.apex
  if rest ≠ [] then none
  let apexN ← NameL.ofWire z.apex
  let kind := match z.kind with
    | .loaded => Catalog.Kind.Loaded | .notYetLoaded => .NotYetLoaded | .failedToLoad => .FailedToLoad
  let z0 := Zone.Zone.new apexN z.cls (if z.glueWide then .wide else .narrow)
  let recs ← z.recs.mapM (fun r => do
    let o ← NameL.ofWire r.owner
    pure (⟨o, r.ty, z.cls, Writer.ttlFrom r.ttl, r.rdata⟩ : Zone.Rec))
  pure ⟨apexW, z.cls, kind, Zone.build srvEqv z0 recs⟩

def srvHandler : Handler := fun op args =>
  match op, args with
  | "srv", [tr, payload, cat, req] =>
    match payload.toNat?, parseCatalog cat, unhex req with
    | some p, some c, some r =>
      match c.mapM mkZoneEntry with
      | some zs =>
        let cfg : Server.Cfg := { payload := p, zones := zs }
        let t := if tr = "t" then Server.Transport.tcp else .udp
        let res := match Server.handleMessage cfg t 0 65535 r with
          | .ok (some b) => hexOf b
          | .ok none => "none"
          | .err _ => "err"
          | .panic => "panic"
        some (res, "-")
      | none => some bad
    | _, _, _ => some bad
  | _, _ => none

end QV.Driver
