import QV.Driver.Util

namespace QV.Driver
open QV

/-- ops of group `server` — stub (not built yet) -/
def serverHandler : Handler := fun _ _ => none

end QV.Driver
