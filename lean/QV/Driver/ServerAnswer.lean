import QV.Driver.Util
import QV.Driver.Server
import QV.Spec.Server
import QV.Spec.Resolve

/-!
  group `srvans` (C05, C04)
    audans <payload> <catalog> <reqhex> <udp> <tcp>   (same line shape as `aud`)
        model column: `ok`; spec column: `tags:` + the findings of `aud` + the C05 / C04 findings below
        + `#<class>` (what kind of answer the specification prescribes: for the coverage histogram).

  When `specScan` says the request reaches a loaded zone (verdict `answer`):
    C05  the TCP response, decoded by `specDecodeMsg`, is compared with `specResolve` on the catalog
         entry selected by longest-suffix match: RCODE, AA, and answer / authority / additional as
         multisets (owners case-folded; embedded names in RDATA case-insensitively; OPT/TSIG
         excluded) — unless the resolution could exceed the 65 535-octet TCP limit.
    C04  T4: a UDP response with TC clear that differs from the TCP one has the same answer and
         authority sections, its additional section is a sub-multiset of TCP's, and no omitted
         record is an address of a name server at or below the delegation point of a referral.
         T2 (converse): a UDP response has TC set only if the mandatory part (answer, authority,
         in-bailiwick glue) does not fit the negotiated limit.
         (T1, T2, T3 are audited by `aud`'s `audit`, whose tags are included.)
-/
namespace QV.Driver
open QV QV.Spec QV.Spec.Server QV.Spec.Resolve

/-- the zone the public API was given, as the flat record list of the specification -/
def toSZone (z : ZoneCfg) : Spec.Zone.SZone :=
  Spec.Zone.specBuild (fun c t a b => specEq c t a b)
    ⟨labels z.apex, z.cls, if z.glueWide then .wide else .narrow, []⟩
    (z.recs.map fun r => ⟨labels r.owner, r.ty, z.cls, specTtl r.ttl, r.rdata⟩)

/-- expand the embedded names of a layout leniently: fields up to the last name, then whatever
    follows, uninterpreted (RDATA the strict decoder rejects — e.g. an SOA with a short MINIMUM
    field stored through the public API — is still comparable) -/
def expandLenient (msg : Bytes) : List Field → Nat → Nat → Option (List UInt8)
  | [], p, e => some (msg.extract p e).toList
  | .name :: fs, p, e =>
    match rdName msg p e with
    | some (w, k) => (expandLenient msg fs (p + k) e).map (w ++ ·)
    | none => none
  | .fixed n :: fs, p, e =>
    if p + n ≤ e then (expandLenient msg fs (p + n) e).map ((msg.extract p (p + n)).toList ++ ·) else none

def lenientRdata (msg : Bytes) (d : DRr) : List UInt8 :=
  if d.rdOk then d.rdata else
  match specDecodeName msg d.pos, layoutOf (fmtOf d.cls d.ty) with
  | some (_, _, k), some l =>
    match specField16 msg (d.pos + k + 8) with
    | some len => (expandLenient msg (uptoLastName l) (d.pos + k + 10) (d.pos + k + 10 + len)).getD d.rdata
    | none => d.rdata
  | _, _ => d.rdata

def drrToRR (msg : Bytes) (d : DRr) : RR := ⟨labels d.owner, d.ty, d.cls, d.rawTtl, lenientRdata msg d⟩

def plain (msg : Bytes) (rs : List DRr) : List RR := (rs.filter (fun r => r.ty ≠ 41 ∧ r.ty ≠ 250)).map (drrToRR msg)

/-- an upper bound of the size of a response carrying `r` (no compression) -/
def sizeBound (qnameLen : Nat) (r : Resolution) : Nat :=
  12 + qnameLen + 4 + 11 +
    ((r.answer ++ r.authority ++ r.additional).map (fun x => wireLen x.owner + 10 + x.rdata.length)).sum

def bucket (n : Nat) : String := if n = 0 then "0" else if n = 1 then "1" else "n"

def resolutionClass (r : Resolution) : String :=
  s!"r{r.rcode}{if r.aa then "A" else "-"}an{bucket r.answer.length}ns{bucket r.authority.length}" ++
  s!"ar{bucket r.additional.length}g{bucket r.glue.length}"

/-- C05 findings for a decoded TCP response -/
def c05Tags (res : Resolution) (m : Bytes) (d : DMsg) : List String :=
  (if d.rcode ≠ res.rcode then [s!"C05:rcode-{d.rcode}-want-{res.rcode}"] else []) ++
  (if d.aa ≠ res.aa then [s!"C05:aa-{d.aa}-want-{res.aa}"] else []) ++
  (if !multisetEq rrEq (plain m d.an) res.answer then ["C05:answer-section"] else []) ++
  (if !multisetEq rrEq (plain m d.ns) res.authority then ["C05:authority-section"] else []) ++
  (if !multisetEq rrEq (plain m d.ar) res.additional then ["C05:additional-section"] else [])

/-- C04 T4 for a decoded UDP/TCP pair (UDP has TC clear and differs from TCP) -/
def t4Tags (mu mt : Bytes) (du dt : DMsg) : List String :=
  (if !multisetEq rrEq (plain mu du.an) (plain mt dt.an) then ["C04:T4-answer-differs"] else []) ++
  (if !multisetEq rrEq (plain mu du.ns) (plain mt dt.ns) then ["C04:T4-authority-differs"] else []) ++
  (match subMultiset rrEq (plain mu du.ar) (plain mt dt.ar) with
   | none => ["C04:T4-additional-not-subset"]
   | some omitted =>
     -- a referral: the authority section consists of NS records of the delegation point
     let ns := plain mt dt.ns
     match ns with
     | [] => []
     | n0 :: _ =>
       if ns.all (fun r => r.rtype = 2) then
         let child := n0.owner
         let targets := ns.filterMap (fun r => exactName r.rdata)
         if omitted.any (fun o => (o.rtype = 1 ∨ o.rtype = 28) ∧ child.isSuffixOf o.owner ∧ targets.contains o.owner)
         then ["C04:T4-mandatory-glue-omitted"] else []
       else [])

/-- C04 T2, converse: over UDP, TC may be set only if the mandatory part does not fit. The TCP
    message lists mandatory records first (answer, authority, in-bailiwick glue), then the optional
    additional ones, then OPT; the octets up to the first optional record are what the UDP run
    writes too (same calls, same compression), so they fit iff that prefix (+ the 11 reserved OPT
    octets) is within the UDP limit. Not applied when the TCP run ended in SERVFAIL (the T3 corner). -/
def t2ConverseTags (limit : Nat) (tb : Bytes) (du dt : DMsg) : List String :=
  if !du.tc ∨ dt.rcode = 2 ∨ dt.ar.any (fun r => r.ty = 250) then [] else
  let ns := dt.ns.filter (fun r => r.ty ≠ 41 ∧ r.ty ≠ 250)
  let isReferral := !ns.isEmpty && ns.all (fun r => r.ty = 2)
  let child := (ns.head?.map (fun r => labels r.owner)).getD []
  let targets := ns.filterMap (fun r => exactName r.rdata)
  let mandatory (r : DRr) : Bool :=
    isReferral && (r.ty = 1 || r.ty = 28) && child.isSuffixOf (labels r.owner) && targets.contains (labels r.owner)
  let firstOptional := dt.ar.find? (fun r => !mandatory r)
  let prefixEnd := match firstOptional with | some r => r.pos | none => tb.size
  let need := prefixEnd + (if dt.ar.any (fun r => r.ty = 41) then 11 else 0)
  if need ≤ limit then [s!"C04:T2-tc-although-mandatory-part-fits-{need}<={limit}"] else []

def serverAnswerHandler : Handler := fun op args =>
  match op, args with
  | "audans", [payload, cat, req, u, t] =>
    match payload.toNat?, parseCatalog cat, unhex req, parseResp u, parseResp t with
    | some p, some c, some r, some ur, some tr =>
      let sc := specScan c p r
      let base := audit c p r ur tr
      let (tags, cls) : List String × String :=
        match sc.respond, sc.verdict, sc.question with
        | true, .answer, some q =>
          match specCatalogLookup c q.qname q.qclass with
          | some zc =>
            let res := specResolve (toSZone zc) (labels q.qname) q.qtype
            let c05 := match tr with
              | .bytes tb =>
                match specDecodeMsg tb with
                | some dt => if sizeBound q.qname.length res ≤ 65535 then c05Tags res tb dt else []
                | none => []                -- C02's finding (already in `base`)
              | _ => []                     -- C01 / C03's finding
            let c04 := match ur, tr with
              | .bytes ub, .bytes tb =>
                if ub ≠ tb then
                  match specDecodeMsg ub, specDecodeMsg tb with
                  | some du, some dt => if du.tc then t2ConverseTags sc.limitUdp tb du dt else t4Tags ub tb du dt
                  | _, _ => []
                else []
              | _, _ => []
            (c05 ++ c04, "answer/" ++ resolutionClass res ++
              (if sizeBound q.qname.length res ≤ 65535 then "" else "/big") ++
              (match ur, tr with
               | .bytes ub, .bytes tb => if ub == tb then "" else
                   (match specDecodeMsg ub with | some du => if du.tc then "/tc" else "/partial" | none => "")
               | _, _ => ""))
          | none => ([], "answer/?")
        | true, _, _ => ([], "other")
        | false, _, _ => ([], "no-response")
      some ("ok", "tags:" ++ ",".intercalate (base ++ tags) ++ "#" ++ cls)
    | _, _, _, _, _ => some bad
  | _, _ => none

end QV.Driver
