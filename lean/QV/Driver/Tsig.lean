import QV.Driver.Util
import QV.Model.Tsig
import QV.Model.TsigMsg
import QV.Spec.Tsig
import QV.Spec.TsigMsg

/-!
  ops of group `tsig` (C11); formats are documented at the top of harness/src/g_tsig.rs.
  Model column: `QV.Model.{Sha,Hmac,Tsig,TsigMsg}`.  Spec column: `QV.Spec.{Tsig,TsigMsg}` with the
  HMAC primitive plugged in (for the `*vec` ops: the published test-vector value).
-/

namespace QV.Driver
open QV QV.Tsig

namespace TsigD

def algArg (s : String) : Option Algorithm :=
  if s = "hmac-sha1" then some .HmacSha1 else if s = "hmac-sha256" then some .HmacSha256 else none

def shaArg (s : String) : Option (Bytes → Bytes) :=
  if s = "sha1" then some Sha.sha1 else if s = "sha256" then some Sha.sha256 else none

def modeArg (s : String) : Option Spec.Tsig.Mode :=
  if s = "req" then some .request else if s = "resp" then some .response
  else if s = "subs" then some .subsequent else none

def timeArg (s : String) : Option TimeSigned := s.toNat?.bind TimeSigned.tryFromUnix

def u16Arg (s : String) : Option UInt16 :=
  match s.toNat? with
  | some n => if n < 65536 then some (UInt16.ofNat n) else none
  | none => none

def hexL (l : Octets) : String := hexOfList l

def unhexL (s : String) : Option Octets := (unhex s).map Array.toList

/-- is `w` the uncompressed wire form of a name (what `Name::try_from_uncompressed_all` accepts)? -/
def nameArg (s : String) : Option Octets :=
  match unhex s with
  | some b => match Wire.parseUncompressed b true with
    | .ok _ => some b.toList
    | _ => none
  | none => none

def showVerify (r : Out VerificationError Unit) : String :=
  match r with
  | .ok _ => "ok"
  | .err e => "err:" ++ e.toString
  | .panic => "panic"

def showSign (r : Out Unit (Octets × Octets)) : String :=
  match r with
  | .ok (rdata, mac) => s!"ok {hexL mac} {hexL rdata}"
  | .err _ => "err"
  | .panic => "panic"

/-- model: `PreparedTsigRr::sign_*` -/
def modelSign (mode : Spec.Tsig.Mode) (p : PreparedTsigRr) (msg pmac : Octets) (alg : Algorithm) (key : Octets) :
    Out Unit (Octets × Octets) :=
  match mode with
  | .request => signRequest realHmac p msg alg key
  | .response => signResponse realHmac p msg pmac alg key
  | .subsequent => signSubsequent realHmac p msg pmac alg key

/-- model: `ReadTsigRr::verify_*` -/
def modelVerify (mode : Spec.Tsig.Mode) (r : ReadTsigRr) (msg pmac : Octets) (alg : Algorithm) (key : Octets)
    (now : TimeSigned) : Out VerificationError Unit :=
  match mode with
  | .request => verifyRequest realHmac r msg alg key now
  | .response => verifyResponse realHmac r msg pmac alg key now
  | .subsequent => verifySubsequent realHmac r msg pmac alg key now

/-- spec: the labels of the algorithm's name and the output size of its hash (RFC 8945 §6) -/
def specAlg (alg : Algorithm) : List Spec.Tsig.Octets × Nat :=
  match alg with
  | .HmacSha1 => Spec.Tsig.algorithms.getD 0 ([], 0)
  | .HmacSha256 => Spec.Tsig.algorithms.getD 1 ([], 0)

/-- spec: MAC and RDATA a signer must produce (RFC 8945 §4.2, §4.3; Other Data = server time iff
    Error = BADTIME, §5.2.3), `-` when §4.3.2 does not apply to the message -/
def specSign (mode : Spec.Tsig.Mode) (alg : Algorithm) (key msg keyname : Octets) (time fudge origid error servertime : Nat)
    (pmac : Octets) : String :=
  if ¬ Spec.Tsig.Applicable msg pmac then "-"
  else match Spec.Tsig.labelsOf keyname with
    | none => "-"
    | some kn =>
      let v : Spec.Tsig.Vars :=
        { keyName := kn, algName := (specAlg alg).1, timeSigned := time, fudge := fudge, error := error,
          other := if error = 18 then Spec.Tsig.u48 servertime else [] }
      let tag := realHmac alg key (Spec.Tsig.digestInput mode msg origid v pmac)
      s!"ok {hexL tag} {hexL (Spec.Tsig.rdata v tag origid)}"

/-- spec: verdict on a message whose TSIG RR has owner `keyname` and RDATA `rdata` -/
def specVerify (mode : Spec.Tsig.Mode) (alg : Algorithm) (key : Octets) (now : Nat) (msg keyname rdata pmac : Octets)
    (badRdata : String) : String :=
  match Spec.Tsig.parseRdata rdata, Spec.Tsig.labelsOf keyname with
  | some f, some kn =>
    -- the caller must pass the algorithm the RR names (precondition of `verify_*`)
    if Spec.Tsig.outputSizeOf f.algName ≠ some (specAlg alg).2 then "-"
    else if ¬ Spec.Tsig.Applicable msg pmac then "-"
    else
      let v : Spec.Tsig.Vars :=
        { keyName := kn, algName := f.algName, timeSigned := f.timeSigned, fudge := f.fudge, error := f.error,
          other := f.other }
      let tag := realHmac alg key (Spec.Tsig.digestInput mode msg f.originalId v pmac)
      (Spec.Tsig.verdict (specAlg alg).2 tag f.mac now f.timeSigned f.fudge).toString
  | none, _ => badRdata
  | _, none => "-"

def showMsgOutcome : Msg.MsgOutcome → String
  | .unreadable => "unreadable"
  | .rrFormErr => "rr:FormErr"
  | .rrNotTsig => "rr:NotTsig"
  | .algMismatch => "alg-mismatch"
  | .panic => "panic"
  | .verified r => showVerify r

/-- spec of op `tvmsg` -/
def specVerifyMsg (mode : Spec.Tsig.Mode) (alg : Algorithm) (key : Octets) (now : Nat) (msg : Bytes) (pmac : Octets) : String :=
  match Spec.Tsig.lastRecord msg with
  | none => "unreadable"
  | some l =>
    if l.rrType ≠ 250 then "unreadable"
    else match Spec.Tsig.parseRdata l.rdata with
      | none => "unreadable"
      | some f =>
        -- C11 does not speak about the TTL field of the TSIG RR: values with the top bit set reach
        -- `ReadTsigRr::try_from` as 0 (`Ttl::from`); the server rejects them itself (C08)
        if l.ttl > 2147483647 then "-"
        else if l.cls ≠ 255 ∨ l.ttl ≠ 0 then "rr:FormErr"
        else if Spec.Tsig.outputSizeOf f.algName ≠ some (specAlg alg).2 then "alg-mismatch"
        else specVerify mode alg key now (msg.extract 0 l.start).toList l.owner l.rdata pmac "unreadable"

end TsigD

open TsigD in
def tsigHandler : Handler := fun op args =>
  match op, args with
  | "sha", [a, m] =>
    match shaArg a, unhex m with
    | some h, some msg => some (s!"ok {hexOf (h msg)}", "-")
    | _, _ => some bad
  | "shavec", [a, m, e] =>
    match shaArg a, unhex m with
    | some h, some msg => some (s!"ok {hexOf (h msg)}", s!"ok {e}")
    | _, _ => some bad
  | "sharep", [a, o, c, e] =>
    match shaArg a, unhex o, c.toNat? with
    | some h, some oct, some n =>
      if oct.size = 1 then some (s!"ok {hexOf (h (Array.replicate n oct[0]!))}", s!"ok {e}") else some bad
    | _, _, _ => some bad
  | "hmac", [a, k, m] =>
    match algArg a, unhex k, unhex m with
    | some alg, some key, some msg => some (s!"ok {hexOf (Hmac.hmac alg key msg)}", "-")
    | _, _, _ => some bad
  | "hmacvec", [a, k, m, e] =>
    match algArg a, unhex k, unhex m with
    | some alg, some key, some msg => some (s!"ok {hexOf (Hmac.hmac alg key msg)}", s!"ok {e}")
    | _, _, _ => some bad
  | "tsign", [mode, a, k, m, kn, time, fudge, origid, error, stime, pm] =>
    match modeArg mode, algArg a, unhexL k, unhexL m, nameArg kn, timeArg time, u16Arg fudge, u16Arg origid,
          u16Arg error, timeArg stime, unhexL pm with
    | some mode, some alg, some key, some msg, some keyname, some t, some f, some oid, some err, some st, some pmac =>
      let p : PreparedTsigRr := ⟨lowerName keyname, t, f, oid, err, st⟩
      some (showSign (modelSign mode p msg pmac alg key),
            specSign mode alg key msg keyname t.toUnix f.toNat oid.toNat err.toNat st.toUnix pmac)
    | _, _, _, _, _, _, _, _, _, _, _ => some bad
  | "twrite", [mode, a, k, kn, time, fudge, origid, error, stime, pm, _recipe, pre] =>
    match modeArg mode, algArg a, unhexL k, unhexL pre, nameArg kn, timeArg time, u16Arg fudge, u16Arg origid,
          u16Arg error, timeArg stime, unhexL pm with
    | some mode, some alg, some key, some msg, some keyname, some t, some f, some oid, some err, some st, some pmac =>
      let p : PreparedTsigRr := ⟨lowerName keyname, t, f, oid, err, st⟩
      let owner := " " ++ hexL (lowerName keyname)
      let sp := specSign mode alg key msg keyname t.toUnix f.toNat oid.toNat err.toNat st.toUnix pmac
      let specOwner := match Spec.Tsig.labelsOf keyname with
        | some ls => " " ++ hexL (Spec.Tsig.canonName ls)
        | none => ""
      some (match modelSign mode p msg pmac alg key with
            | .ok (rdata, mac) => s!"ok {hexL mac} {hexL rdata}{owner}"
            | .err _ => "err"
            | .panic => "panic",
            if sp = "-" then "-" else sp ++ specOwner)
    | _, _, _, _, _, _, _, _, _, _, _ => some bad
  | "tverify", [mode, a, k, now, m, kn, rd, pm] =>
    match modeArg mode, algArg a, unhexL k, timeArg now, unhexL m, nameArg kn, unhexL rd, unhexL pm with
    | some mode, some alg, some key, some now, some msg, some keyname, some rdata, some pmac =>
      if rdata.length > 65535 then some bad else
      let model :=
        match validateAsTsig rdata with
        | .panic => "panic"
        | .err _ => "invalid-rdata"
        | .ok _ =>
          match ReadTsigRr.tryFrom keyname Gen.TYPE_TSIG Gen.QCLASS_ANY 0 rdata with
          | .panic => "panic"
          | .err e => "rr:" ++ e.toString
          | .ok r => showVerify (modelVerify mode r msg pmac alg key now)
      some (model, specVerify mode alg key now.toUnix msg keyname rdata pmac "invalid-rdata")
    | _, _, _, _, _, _, _, _ => some bad
  | "tvmsg", [mode, a, k, now, m, pm] =>
    match modeArg mode, algArg a, unhexL k, timeArg now, unhex m, unhexL pm with
    | some mode, some alg, some key, some now, some msg, some pmac =>
      let verify := fun (r : ReadTsigRr) (pre : Octets) => modelVerify mode r pre pmac alg key now
      some (showMsgOutcome (Msg.verifyMessage verify alg msg), specVerifyMsg mode alg key now.toUnix msg pmac)
    | _, _, _, _, _, _ => some bad
  | _, _ => none

end QV.Driver
