import QV.Driver.Util

namespace QV.Driver
open QV

/-- ops of group `tsig` — stub (not built yet) -/
def tsigHandler : Handler := fun _ _ => none

end QV.Driver
