import QV.Driver.Util

namespace QV.Driver
open QV

/-- ops of group `snapshot` — stub (not built yet) -/
def snapshotHandler : Handler := fun _ _ => none

end QV.Driver
