import QV.Driver.Util
import QV.Model.Snapshot
import QV.Spec.Snapshot

/-!
  ops of group `snapshot` (C32).

  `snapobs <lo> <hi> <klo> <khi> <nrec> <j|-> <markers|-> <sig>` — one response observed in the
      concurrent stress run.  Inputs recorded by the harness: the window of catalog generations
      `lo..hi` and key generations `klo..khi` that can have been current while the request was
      handled, the number of marked records the query kind yields, the generation `j` whose secret
      signed the request (`-` = unsigned).  Observation: the comma-separated generation markers of
      all answer/authority/additional records, and whether the MAC was accepted (`1`/`0`/`-`).
      model: `ok` iff some interleaving of the model produces this response in that window
      (`admits`, sound by `C32_window_admits`); spec: `ok` iff one snapshot, not stale.
  `snapseq <step;step;…>` — sequential history: `c<g>` install catalog g, `k<g>` install keys g,
      `q<nrec>` unsigned query, `t<j>:<nrec>` query signed with generation j.
      result `ok <markers>/<sig>;…`.
-/
namespace QV.Driver
open QV QV.Snapshot

private def natList (s : String) : Option (List Nat) :=
  if s = "-" then some [] else (s.splitOn ",").mapM (·.toNat?)

private def optNat (s : String) : Option (Option Nat) :=
  if s = "-" then some none else s.toNat?.map some

private def optBool (s : String) : Option (Option Bool) :=
  if s = "-" then some none else if s = "1" then some (some true) else if s = "0" then some (some false) else none

private def showObs (m : List Nat) (sg : Option Bool) : String :=
  (if m.isEmpty then "-" else ",".intercalate (m.map toString)) ++ "/" ++
  (match sg with | none => "-" | some true => "1" | some false => "0")

private def seqStep (s : String) : Option ((Bool × Nat) ⊕ (Nat × Option Nat)) :=
  match s.toList with
  | 'c' :: r => (String.ofList r).toNat?.map fun g => .inl (true, g)
  | 'k' :: r => (String.ofList r).toNat?.map fun g => .inl (false, g)
  | 'q' :: r => (String.ofList r).toNat?.map fun n => .inr (n, none)
  | 't' :: r =>
    match (String.ofList r).splitOn ":" with
    | [j, n] => do let j ← j.toNat?; let n ← n.toNat?; pure (.inr (n, some j))
    | _ => none
  | _ => none

def snapshotHandler : Handler := fun op args =>
  match op, args with
  | "snapobs", [lo, hi, klo, khi, nrec, j, ms, sg] =>
    match lo.toNat?, hi.toNat?, klo.toNat?, khi.toNat?, nrec.toNat?, optNat j, natList ms, optBool sg with
    | some lo, some hi, some klo, some khi, some nrec, some j, some ms, some sg =>
      let m := if admits lo hi klo khi ⟨nrec, j⟩ ⟨ms, sg⟩ then "ok" else "err:inadmissible"
      let s := match QV.Spec.Snapshot.obsVerdict lo hi klo khi nrec j ms sg with
        | none => "ok"
        | some w => "err:" ++ w
      some (m, s)
    | _, _, _, _, _, _, _, _ => some bad
  | "snapseq", [steps] =>
    match (steps.splitOn ";").mapM seqStep with
    | some ops =>
      let mops : List ((Nat ⊕ Nat) ⊕ GenReq) := ops.map fun
        | .inl (true, g) => .inl (.inl g)
        | .inl (false, g) => .inl (.inr g)
        | .inr (n, sw) => .inr ⟨n, sw⟩
      let m := runSeq genResp (fun r => r.signedWith.isSome) 0 0 mops
      let s := QV.Spec.Snapshot.seqSpec 0 0 ops
      some ("ok " ++ ";".intercalate (m.map fun o => showObs o.markers o.sig),
            "ok " ++ ";".intercalate (s.map fun o => showObs o.1 o.2))
    | none => some bad
  | _, _ => none

end QV.Driver
