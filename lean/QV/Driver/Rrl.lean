import QV.Driver.Util

namespace QV.Driver
open QV

/-- ops of group `rrl` — stub (not built yet) -/
def rrlHandler : Handler := fun _ _ => none

end QV.Driver
