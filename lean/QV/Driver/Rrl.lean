/-
  QV.Driver.Rrl — ops of the groups `rrl`, `rrlkey` (op `rrl`) and `rrlburst` (op `burst`).

  One line = one whole history against a fresh server:

    rrl <noerror_rate> <nxdomain_rate> <error_rate> <window> <slip> <v4len> <v6len> <size> <step>;<step>;…

  step `s<secs>`   the hook `verif_rrl_shift(secs)`: `secs` whole seconds pass
  step `w<ms>`     the harness really sleeps `ms` milliseconds (sub-second phases; the histories
                   that use it keep every request ≥ 0.2 s away from a whole-second boundary of its
                   bucket and are discarded if the real clock drifted more than 0.15 s)
  step `q,<src>,<u|t>,<request>,<opcode>,<resp>,<rcode>,<qname>,<sos>,<edns>,<rnd>,<idx>,<dest>,<qhash>,<kc>,<bare>`
       one request. `src` = source address (8 hex digits IPv4, 32 hex digits IPv6, before the
       canonicalisation of `ReceivedInfo::new`); transport; the request octets (hex; used by the
       harness only, so that a replay sends exactly the same message); opcode. Recorded by the harness
       (inputs of the model, §3.5): `resp` = the handler produces a response at all, `rcode` =
       its extended RCODE, `qname` = the question's QNAME (wire hex, `-` if no question was
       read), `sos` = the wildcard source of synthesis (`-` if none), `edns` = the response
       carries an OPT record, `rnd` = the limited response was observed slipped (used only when
       slip ≥ 2), and the probe of the real server's `RandomState`: bucket index, masked
       destination, 32-bit QNAME hash; `kc` = key class: two responses of the history have the
       same class iff the real code gives them the same key (probed on four more servers);
       `bare` = the handler's response already has TC set and no records besides OPT, so that a
       slipped copy is octet-for-octet the same message: such a step prints `pass` for "sent or
       slipped" (with slip ≥ 2 the spec column then follows the recorded `rnd`).

  Result: `ok <token>,<token>,…` one token per `q` step:
       `send` | `drop` | `slip:<tc>:<an>:<ns>:<ar>:<opt>` | `lim` (slip ≥ 2: limited) | `none`
       (+ `!dest` if the probed masked destination differs from the model's; the whole result
       gets `!key` if the model's keys are not equal exactly where the key classes are).
  The model runs on times `(sum of shifts so far) · 10⁹ ns`: the harness keeps the real time of a
  whole history below one second, so the whole seconds elapsed since a bucket's last refill are
  exactly the shifts (see harness/src/g_rrl.rs).

  The spec column is `-` when the history is outside the hypotheses of the C26/C27 theorems:
  two responses with *different keys* (key classes) share a bucket (`NoBucketCollision`), two
  different names share a QNAME hash (`HashInjectiveOn`), or a response has the key the buckets
  are initialised with. Responses of different streams with the *same* key class are not excused:
  that is a violation of C27.

    burst <ne> <nx> <er> <window> <slip> <size> <pre> <threads> <per> <yield>
  `pre` sequential requests of one stream, then `threads × per` requests of the same stream from
  `threads` OS threads within one second. Result `ok <sent> <slipped> <dropped>` of the
  concurrent part (`ok <sent> <limited>` when slip ≥ 2).
-/
import QV.Driver.Util
import QV.Model.Rrl
import QV.Spec.Rrl

namespace QV.Driver
open QV QV.Rrl

namespace RrlDrv

structure QStep where
  srcHex : String
  udp : Bool
  opcode : Nat
  resp : Bool
  rcode : Nat
  qname : Option (List UInt8)
  sos : Option (List UInt8)
  edns : Bool
  rnd : Bool
  idx : Nat
  dest : Nat
  qhash : Nat
  kc : Nat
  bare : Bool

inductive Step where
  | shift (secs : Nat)
  | wait (ms : Nat)
  | q (s : QStep)

def hexNat (s : String) : Option Nat :=
  s.toList.foldl (fun acc c => do let a ← acc; let d ← hexVal c; pure (a * 16 + d)) (some 0)

def nameArg (s : String) : Option (Option (List UInt8)) :=
  if s = "-" then some none else (unhex s).map (fun b => some b.toList)

def parseStep (s : String) : Option Step :=
  if s.startsWith "s" then (s.drop 1).toString.toNat?.map Step.shift
  else if s.startsWith "w" then (s.drop 1).toString.toNat?.map Step.wait
  else match s.splitOn "," with
    | ["q", src, t, _req, opc, resp, rcode, qn, sos, edns, rnd, idx, dest, qh, kc, bare] => do
      let udp ← if t = "u" then some true else if t = "t" then some false else none
      let _ ← hexNat src
      if src.length ≠ 8 ∧ src.length ≠ 32 then none
      pure (.q { srcHex := src, udp, opcode := ← opc.toNat?, resp := ← boolArg resp,
                 rcode := ← rcode.toNat?, qname := ← nameArg qn, sos := ← nameArg sos,
                 edns := ← boolArg edns, rnd := ← boolArg rnd, idx := ← idx.toNat?,
                 dest := ← dest.toNat?, qhash := ← qh.toNat?, kc := ← kc.toNat?, bare := ← boolArg bare })
    | _ => none

def parseSteps (s : String) : Option (List Step) := (s.splitOn ";").mapM parseStep

/-- the raw source address of the model -/
def modelSrc (h : String) : IpAddr :=
  let n := (hexNat h).getD 0
  if h.length = 8 then .v4 (UInt32.ofNat n)
  else .v6 (UInt64.ofNat (n / 2 ^ 64)) (UInt64.ofNat (n % 2 ^ 64))

/-- the source address of the spec -/
def specSrc (h : String) : Spec.Rrl.Addr :=
  let n := (hexNat h).getD 0
  if h.length = 8 then .v4 n else .v6 n

def mkContext (q : QStep) : Context :=
  { send_response := q.resp
    transport := if q.udp then .Udp else .Tcp
    opcode := q.opcode
    source := ReceivedInfo.new (modelSrc q.srcHex)
    extended_rcode := q.rcode
    question := q.qname
    source_of_synthesis := q.sos
    response := { tc := false, ancount := 1, nscount := 1, arcount := 1 + (if q.edns then 1 else 0),
                  edns := q.edns, tsig := false }
    rrl_action := none }

/-- source of synthesis, else QNAME, else (no question) the root name -/
def streamName (q : QStep) : List UInt8 := (q.sos.orElse fun _ => q.qname).getD ROOT_NAME

/-- `RandomState` reconstructed from the probes of one history -/
def mkRandomState (p : RrlParams) (qs : List QStep) : RandomState :=
  -- the probe reports the QNAME hash only for NOERROR responses (0 otherwise, as in the key)
  let names : List (List UInt8 × UInt32) := qs.filterMap fun q =>
    if Category.ofExtendedRcode q.rcode = .NoError then some (lowerName (streamName q), UInt32.ofNat q.qhash)
    else none
  let hashName : List UInt8 → UInt32 := fun n => (names.lookup n).getD 0
  let rs0 : RandomState := { hashName, hashKey := fun _ => 0 }
  let keys : List (Key × Nat) := qs.filterMap fun q =>
    match keyOf rs0 p (mkContext q) with
    | .ok k => some (k, q.idx)
    | _ => none
  { hashName, hashKey := fun k => (keys.lookup k).getD 0 }

def b01 (b : Bool) : String := if b then "1" else "0"

def showModelStep (p : RrlParams) (q : QStep) (c : Context) (destOk : Bool) : String :=
  let base :=
    if !q.resp then "none"
    else if q.bare then
      match c.rrl_action with
      | some .Drop => if p.slip ≥ 2 then "lim" else "drop"
      | _ => "pass"
    else match c.rrl_action with
      | none => "send"
      | some .Send => "send"
      | some .Slip =>
        if p.slip ≥ 2 then "lim"
        else s!"slip:{b01 c.response.tc}:{c.response.ancount}:{c.response.nscount}:{c.response.arcount}:{b01 c.response.edns}"
      | some .Drop => if p.slip ≥ 2 then "lim" else "drop"
  if destOk then base else base ++ "!dest"

/-- run the model over the steps; `none` = panic -/
def runModel (rs : RandomState) (p : RrlParams) : List Step → Rrl → Nat → List String → Option (List String)
  | [], _, _, acc => some acc.reverse
  | .shift secs :: rest, r, t, acc => runModel rs p rest r (t + shiftNanos secs) acc
  | .wait ms :: rest, r, t, acc => runModel rs p rest r (t + ms * 1000000) acc
  | .q q :: rest, r, t, acc =>
    let c := mkContext q
    match processResponse rs r t q.rnd c with
    | .ok (r', c') =>
      let destOk := !subjectToRrl c ||
        (match keyOf rs p c with
         | .ok k => k.dest.toNat == q.dest
         | _ => true)
      runModel rs p rest r' t (showModelStep p q c' destOk :: acc)
    | _ => none

/-! spec side -/

def specResponse (q : QStep) (t : Nat) : Spec.Rrl.Response :=
  { src := specSrc q.srcHex, rcode := q.rcode, name := streamName q, udp := q.udp, opcode := q.opcode, time := t }

def timed : List Step → Nat → List (QStep × Nat)
  | [], _ => []
  | .shift secs :: rest, t => timed rest (t + secs * Spec.Rrl.second)
  | .wait ms :: rest, t => timed rest (t + ms * 1000000)
  | .q q :: rest, t => (q, t) :: timed rest t

/-- is the history inside the hypotheses under which the spec constrains the code? -/
def specApplies (cfg : Spec.Rrl.Config) (qs : List (QStep × Nat)) : Bool :=
  let lim := qs.filter fun (q, t) => q.resp && decide (Spec.Rrl.Limitable (specResponse q t))
  lim.all fun (q, t) =>
    let r := specResponse q t
    -- the key all buckets start with: IPv4, masked destination 0, NOERROR, QNAME hash 0
    let initial := decide (Spec.Rrl.catOf q.rcode = .noerror) && q.qhash == 0 &&
      (match r.src.canonical with
       | .v4 a => decide (Spec.Rrl.samePrefix 32 cfg.v4len a 0)
       | .v6 _ => false)
    !initial && lim.all fun (q', t') =>
      let r' := specResponse q' t'
      -- NoBucketCollision: different keys use different buckets
      (q.kc == q'.kc || q.idx != q'.idx) &&
      -- HashInjectiveOn: different names (ignoring case) have different hashes
      (!(decide (Spec.Rrl.catOf q.rcode = .noerror) && decide (Spec.Rrl.catOf q'.rcode = .noerror)) ||
        decide (Spec.Rrl.foldCase r.name = Spec.Rrl.foldCase r'.name) || q.qhash != q'.qhash)

def showSpecStep (cfg : Spec.Rrl.Config) (q : QStep) (send : Bool) : String :=
  if !q.resp then "none"
  else if q.bare then
    (if send then "pass" else if cfg.slip = 0 then "drop" else if cfg.slip = 1 then "pass"
     else if q.rnd then "pass" else "lim")
  else if send then "send"
  else if cfg.slip = 0 then "drop"
  else if cfg.slip = 1 then s!"slip:1:0:0:{b01 q.edns}:{b01 q.edns}"
  else "lim"

def runSpec (cfg : Spec.Rrl.Config) : List Spec.Rrl.Response → List (QStep × Nat) → List String
  | _, [] => []
  | past, (q, t) :: rest =>
    let r := specResponse q t
    if q.resp then
      showSpecStep cfg q (Spec.Rrl.shouldSendFast cfg past r) :: runSpec cfg (past ++ [r]) rest
    else "none" :: runSpec cfg past rest

def rrlOp (a : List Nat) (stepsArg : String) : String × String :=
  match a, parseSteps stepsArg with
  | [ne, nx, er, w, slip, v4len, v6len, size], some steps =>
    match RrlParams.configure ne nx er w slip v4len v6len size with
    | .err e => ("err:" ++ e.toString, "-")
    | .panic => ("panic", "-")
    | .ok p =>
      let qs := steps.filterMap fun s => match s with | .q q => some q | _ => none
      let rs := mkRandomState p qs
      -- the model's keys must be equal exactly where the recorded key classes are
      let subj : List (Key × Nat) := qs.filterMap fun q =>
        if subjectToRrl (mkContext q) then
          match keyOf rs p (mkContext q) with
          | .ok k => some (k, q.kc)
          | _ => none
        else none
      -- distinct (key, class) pairs only: histories repeat the same request many times
      let distinct := subj.foldl (fun acc x => if acc.contains x then acc else x :: acc) []
      let keysOk := distinct.all fun (k, c) => distinct.all fun (k', c') => decide (k = k') == (c == c')
      let m := match runModel rs p steps (Rrl.new p 0) 0 [] with
        | some toks => "ok " ++ ",".intercalate toks ++ (if keysOk then "" else "!key")
        | none => "panic"
      let cfg : Spec.Rrl.Config := { noerrorRate := ne, nxdomainRate := nx, errorRate := er, window := w,
                                     slip, v4len, v6len }
      let tq := timed steps 0
      let s := if specApplies cfg tq then "ok " ++ ",".intercalate (runSpec cfg [] tq) else "-"
      (m, s)
  | _, _ => bad

/-! burst -/

def burstKey : Key := { dest := 1, ipv6 := false, qname_hash := 1, category := .NoError }

/-- `n` sequential passes through the critical section at one instant -/
def burstModel (p : RrlParams) : Nat → Entry → (Nat × Nat × Nat) → Option (Entry × Nat × Nat × Nat)
  | 0, e, acc => some (e, acc)
  | n + 1, e, (s, sl, d) =>
    match processBucket p burstKey .NoError e 0 false with
    | .ok (e', .Send) => burstModel p n e' (s + 1, sl, d)
    | .ok (e', .Slip) => burstModel p n e' (s, sl + 1, d)
    | .ok (e', .Drop) => burstModel p n e' (s, sl, d + 1)
    | _ => none

def burstOp : List Nat → String × String
  | [ne, nx, er, w, slip, size, pre, threads, per, _yield] =>
    match RrlParams.configure ne nx er w slip 24 56 size with
    | .err e => ("err:" ++ e.toString, "-")
    | .panic => ("panic", "-")
    | .ok p =>
      let e0 : Entry := { key := initialKey, count := 0, last_refill := 0 }
      let n := threads * per
      let shw := fun (s sl d : Nat) => if slip ≥ 2 then s!"ok {s} {sl + d}" else s!"ok {s} {sl} {d}"
      let m := match burstModel p pre e0 (0, 0, 0) with
        | some (e1, _) =>
          (match burstModel p n e1 (0, 0, 0) with
           | some (_, s, sl, d) => shw s sl d
           | none => "panic")
        | none => "panic"
      let cap := ne * w
      let sent := Spec.Rrl.burstSent n (cap - min pre cap)
      let lim := n - sent
      let s := if slip = 0 then shw sent 0 lim else if slip = 1 then shw sent lim 0 else s!"ok {sent} {lim}"
      (m, s)
  | _ => bad

/-- `bursts ne nx er window slip size rounds threads per`: `rounds` bursts of `threads × per`
    requests, each on a stream the table has not seen (the first request of a round installs the
    entry with count 1). Totals over all rounds. -/
def burstsOp : List Nat → String × String
  | [ne, nx, er, w, slip, size, rounds, threads, per] =>
    match RrlParams.configure ne nx er w slip 24 56 size with
    | .err e => ("err:" ++ e.toString, "-")
    | .panic => ("panic", "-")
    | .ok p =>
      let e0 : Entry := { key := initialKey, count := 0, last_refill := 0 }
      let n := threads * per
      let shw := fun (s sl d : Nat) => if slip ≥ 2 then s!"ok {s} {sl + d}" else s!"ok {s} {sl} {d}"
      let m := match burstModel p n e0 (0, 0, 0) with
        | some (_, s, sl, d) => shw (rounds * s) (rounds * sl) (rounds * d)
        | none => "panic"
      let cap := ne * w
      let sent := Spec.Rrl.burstSent n cap
      let lim := n - sent
      let s := if slip = 0 then shw (rounds * sent) 0 (rounds * lim) else if slip = 1 then shw (rounds * sent) (rounds * lim) 0
               else s!"ok {rounds * sent} {rounds * lim}"
      (m, s)
  | _ => bad

end RrlDrv

/-- ops of groups `rrl`, `rrlkey`, `rrlburst` -/
def rrlHandler : Handler := fun op args =>
  match op with
  | "rrl" =>
    match args with
    | [ne, nx, er, w, slip, v4, v6, size, steps] =>
      match [ne, nx, er, w, slip, v4, v6, size].mapM natArg with
      | some a => some (RrlDrv.rrlOp a steps)
      | none => some bad
    | _ => some bad
  | "burst" =>
    match args.mapM natArg with
    | some a => some (RrlDrv.burstOp a)
    | none => some bad
  | "bursts" =>
    match args.mapM natArg with
    | some a => some (RrlDrv.burstsOp a)
    | none => some bad
  | _ =>
    -- `rrl-discarded-<n>`: bookkeeping line of the harness (histories thrown away because the
    -- real clock advanced too far); shows up in the evidence histogram, constrains nothing
    if op.startsWith "rrl-discarded-" then some ("ok", "-") else none

end QV.Driver
