import QV.Driver.Util
import QV.Driver.Wire

namespace QV.Driver

def handlers : List Handler := [wireHandler]

def dispatch (line : String) : String :=
  match line.trimAscii.toString.splitOn " " with
  | [] => "bad-op\tbad-op"
  | op :: args =>
    let rec go : List Handler → String
      | [] => "bad-op\tbad-op"
      | h :: hs => match h op args with
        | some (m, s) => m ++ "\t" ++ s
        | none => go hs
    go handlers

partial def loop (h : IO.FS.Stream) (out : IO.FS.Stream) : IO Unit := do
  let line ← h.getLine
  if line.isEmpty then return ()
  out.putStrLn (dispatch line)
  loop h out

def main : IO Unit := do
  let stdin ← IO.getStdin
  let stdout ← IO.getStdout
  loop stdin stdout
  stdout.flush

end QV.Driver
