import QV.Driver.Util
import QV.Driver.Wire
import QV.Driver.Codes
import QV.Driver.Name
import QV.Driver.Rdata
import QV.Driver.Catalog
import QV.Driver.Zone
import QV.Driver.Rrl
import QV.Driver.Reader
import QV.Driver.Tsig
import QV.Driver.Writer
import QV.Driver.Server
import QV.Driver.SrvSafe
import QV.Driver.SrvRrl
import QV.Driver.ServerTsig
import QV.Driver.ServerAnswer
import QV.Driver.Zonefile
import QV.Driver.Include
import QV.Driver.Pool
import QV.Driver.Framing
import QV.Driver.Reload
import QV.Driver.Snapshot

namespace QV.Driver

def handlers : List Handler :=
  [wireHandler, codesHandler, nameHandler, rdataHandler, catalogHandler, zoneHandler, rrlHandler, readerHandler, tsigHandler, writerHandler, serverHandler, srvHandler, srvsafeHandler, srvrrlHandler, srvtHandler, serverAnswerHandler, zonefileHandler, includeHandler, poolHandler, framingHandler, reloadHandler, snapshotHandler]

def dispatch (line : String) : String :=
  match line.trimAscii.toString.splitOn " " with
  | [] => "bad-op\tbad-op"
  | op :: args =>
    let rec go : List Handler → String
      | [] => "bad-op\tbad-op"
      | h :: hs => match h op args with
        | some (m, s) => m ++ "\t" ++ s
        | none => go hs
    go handlers

partial def loop (h : IO.FS.Stream) (out : IO.FS.Stream) : IO Unit := do
  let line ← h.getLine
  if line.isEmpty then return ()
  out.putStrLn (dispatch line)
  loop h out

def main : IO Unit := do
  let stdin ← IO.getStdin
  let stdout ← IO.getStdout
  loop stdin stdout
  stdout.flush

end QV.Driver
