import QV.Driver.Util
import QV.Model.Wire
import QV.Spec.NameWire

namespace QV.Driver
open QV QV.Wire QV.Spec

def showParsed (p : Parsed) : String := s!"{hexOfList p.wire} {p.nlabels} {p.len}"

def wireHandler : Handler := fun op args =>
  match op, args with
  | "pc", [m, s] =>
    match unhex m, natArg s with
    | some msg, some st =>
      some (showOut NameErr.toString showParsed (parseCompressed msg st),
            showOpt (fun (r : List UInt8 × Nat × Nat) => s!"{hexOfList r.1} {r.2.1} {r.2.2}") (specDecodeName msg st))
    | _, _ => some bad
  | "pu", [b, a] =>
    match unhex b, boolArg a with
    | some buf, some all =>
      some (showOut NameErr.toString showParsed (parseUncompressed buf all),
            showOpt (fun (r : List UInt8 × Nat) => s!"{hexOfList r.1} {r.2} {r.1.length}") (specDecodeUncompressed buf all))
    | _, _ => some bad
  | "vu", [b, a] =>
    match unhex b, boolArg a with
    | some buf, some all =>
      some (showOut NameErr.toString toString (validateUncompressed buf all),
            showOpt (fun (r : List UInt8 × Nat) => s!"{r.1.length}") (specDecodeUncompressed buf all))
    | _, _ => some bad
  | "sk", [b] =>
    match unhex b with
    | some buf =>
      some (showOut NameErr.toString toString (skipCompressed buf),
            -- the spec constrains skipping only where a name decodes at offset 0
            match specDecodeName buf 0 with
            | some (_, _, k) => s!"ok {k}"
            | none => "-")
    | _ => some bad
  | _, _ => none

end QV.Driver
