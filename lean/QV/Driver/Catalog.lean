import QV.Driver.Util

namespace QV.Driver
open QV

/-- ops of group `catalog` — stub (not built yet) -/
def catalogHandler : Handler := fun _ _ => none

end QV.Driver
