/-
  Driver ops of group `catalog` (C22).

    cat <step>;<step>;…        a whole history on `HashMapTreeCatalog::new()`; one result per step
    szc <entry> <step>;…       `SingleZoneCatalog::new(entry)`; steps `l:`/`g:` only

  steps
    i:<namehex>:<class>:<id>:<kind>    insert (kind L = Loaded, N = NotYetLoaded, F = FailedToLoad);
                                       result = the replaced entry or `-`
    r:<namehex>:<class>                remove; result = the removed entry or `-`
    l:<namehex>:<class>                lookup (longest match); result = entry or `-`
    g:<namehex>:<class>                get (exact); result = entry or `-`
    it                                 iter; result = the entries, sorted, joined by `,` (or `-`)

  entry = `<namehex>:<class>:<id>:<kind>`; names are uncompressed wire form in hex (`00` = root).
  Reply `ok r1;r2;…` in both columns: the model column runs `QV.Model.Catalog`, the spec column
  runs the finite map of `QV.Spec.Catalog` on the same history.
-/
import QV.Driver.Util
import QV.Model.Catalog
import QV.Spec.Catalog

namespace QV.Driver
open QV QV.Catalog

namespace Cat

/-- uncompressed wire form → labels (root label dropped) -/
def labelsOfWire : Nat → List UInt8 → Option DName
  | 0, _ => none
  | fuel + 1, bs =>
    match bs with
    | [] => none
    | len :: rest =>
      if len = 0 then (if rest.isEmpty then some [] else none)
      else if len.toNat > 63 ∨ rest.length < len.toNat then none
      else (labelsOfWire fuel (rest.drop len.toNat)).map (fun r => rest.take len.toNat :: r)

def parseName (s : String) : Option DName :=
  (unhex s).bind (fun b => labelsOfWire (b.size + 1) b.toList)

def wireOf (n : DName) : List UInt8 :=
  n.foldr (fun l acc => UInt8.ofNat l.length :: l ++ acc) [0]

def parseKind (s : String) : Option Kind :=
  if s = "L" then some .Loaded else if s = "N" then some .NotYetLoaded
  else if s = "F" then some .FailedToLoad else none

def showKind : Kind → String
  | .Loaded => "L" | .NotYetLoaded => "N" | .FailedToLoad => "F"

def showEntry (e : Entry Nat) : String :=
  s!"{hexOfList (wireOf e.name)}:{e.cls}:{e.md}:{showKind e.kind}"

def showOptEntry : Option (Entry Nat) → String
  | some e => showEntry e
  | none => "-"

def showEntries (l : List (Entry Nat)) : String :=
  if l.isEmpty then "-" else
  ",".intercalate ((l.map showEntry).toArray.qsort (· < ·)).toList

def parseEntry (f : List String) : Option (Entry Nat) :=
  match f with
  | [n, c, i, k] => do
    let n ← parseName n
    let c ← c.toNat?
    let i ← i.toNat?
    let k ← parseKind k
    pure ⟨n, c, k, if k = .Loaded then i else 0, i⟩
  | _ => none

inductive Step where
  | ins (e : Entry Nat)
  | rem (n : DName) (c : Nat)
  | look (n : DName) (c : Nat)
  | get (n : DName) (c : Nat)
  | iter

def parseStep (s : String) : Option Step :=
  match s.splitOn ":" with
  | ["it"] => some .iter
  | "i" :: rest => (parseEntry rest).map .ins
  | [op, n, c] => do
    let n ← parseName n
    let c ← c.toNat?
    if op = "r" then pure (.rem n c) else if op = "l" then pure (.look n c)
    else if op = "g" then pure (.get n c) else none
  | _ => none

def parseSteps (s : String) : Option (List Step) := (s.splitOn ";").mapM parseStep

/-- model column -/
def runModel : QV.Catalog.Cat Nat → List Step → List String
  | _, [] => []
  | c, .ins e :: r => let x := QV.Catalog.insert c e; showOptEntry x.2 :: runModel x.1 r
  | c, .rem n k :: r => let x := QV.Catalog.remove c n k; showOptEntry x.2 :: runModel x.1 r
  | c, .look n k :: r => showOptEntry (QV.Catalog.lookup c n k) :: runModel c r
  | c, .get n k :: r => showOptEntry (QV.Catalog.get c n k) :: runModel c r
  | c, .iter :: r => showEntries (QV.Catalog.iter c) :: runModel c r

open QV.Spec.Catalog in
/-- spec column: the finite map -/
def runSpec : SMap (Entry Nat) → List Step → List String
  | _, [] => []
  | m, .ins e :: r =>
    let k : Key := (e.cls, foldName e.name)
    showOptEntry (sfind m k) :: runSpec (sinsert m k e) r
  | m, .rem n c :: r =>
    let k : Key := (c, foldName n)
    showOptEntry (sfind m k) :: runSpec (serase m k) r
  | m, .look n c :: r => showOptEntry (specLookup m n c) :: runSpec m r
  | m, .get n c :: r => showOptEntry (specGet m n c) :: runSpec m r
  | m, .iter :: r => showEntries (specIter m) :: runSpec m r

def runSzModel (e : Entry Nat) : List Step → Option (List String)
  | [] => some []
  | .look n k :: r => (runSzModel e r).map (showOptEntry (szLookup e n k) :: ·)
  | .get n k :: r => (runSzModel e r).map (showOptEntry (szGet e n k) :: ·)
  | _ => none

end Cat

open Cat in
def catalogHandler : Handler := fun op args =>
  match op, args with
  | "cat", [h] =>
    match parseSteps h with
    | some steps =>
      some ("ok " ++ ";".intercalate (runModel QV.Catalog.Cat.empty steps),
            "ok " ++ ";".intercalate (runSpec [] steps))
    | none => some bad
  | "szc", [e, h] =>
    match parseEntry (e.splitOn ":"), parseSteps h with
    | some e, some steps =>
      match runSzModel e steps with
      | some rs =>
        some ("ok " ++ ";".intercalate rs,
              "ok " ++ ";".intercalate
                (runSpec (QV.Spec.Catalog.single (e.cls, QV.Spec.Catalog.foldName e.name) e) steps))
      | none => some bad
    | _, _ => some bad
  | _, _ => none

end QV.Driver
