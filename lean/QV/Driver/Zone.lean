import QV.Driver.Util

namespace QV.Driver
open QV

/-- ops of group `zone` — stub (not built yet) -/
def zoneHandler : Handler := fun _ _ => none

end QV.Driver
