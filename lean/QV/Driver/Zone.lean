/-
  QV.Driver.Zone — ops of group `zone` (C06, C20, C21).

  One case = one whole session on one zone:

      zone <apex> <class> <n|w> <step>;<step>;…

  `<apex>`: wire hex; `<class>`: decimal; `n`/`w`: narrow / wide glue policy. Steps (fields
  separated by `,`; names and RDATA as hex, `-` = empty):

      a,<owner>,<type>,<class>,<ttl>,<rdata>   HashMapTreeZone::add (ttl: raw u32, through Ttl::from)
      l,<name>,<type>,<u><s>                   Zone::lookup      (u = unchecked, s = search_below_cuts; 0/1)
      d,<name>,<u><s>                          Zone::lookup_addrs
      x,<name>,<u><s>                          Zone::lookup_all
      n | r | s | t | v                        iter_by_node | iter_by_rrset | soa | ns | validate

  Result: `ok <r1>;<r2>;…` (one entry per step). Everything that comes out of a hash map is
  sorted; names are printed case-folded; the RDATAs of an RRset are printed sorted.
  The spec column is `-` when some step is not constrained (an `unchecked` lookup of a name that
  is not at or below the apex).

  RDATA equality for de-duplication (`Rdata::equals`) is instantiated here by `rdataEquals`, a
  direct transcription of src/rr/rdata/{mod,std13,helpers}.rs for the types the generators use
  (A incl. class CH, NS/CNAME/PTR-like single names, SOA, MX; octet equality otherwise — MINFO
  and SRV are not generated).
-/
import QV.Driver.Util
import QV.Model.Zone
import QV.Model.Validation
import QV.Spec.Zone
import QV.Spec.NameWire

namespace QV.Zone
open QV QV.NameL

/-- `helpers::test_n_name_fields`: `some (some len)` all fields valid and equal, `some none`
    definitely different, `none` fall back to bitwise comparison -/
def testNNameFields (a b : Rdata) : Nat → Nat → Option (Option Nat)
  | 0, off => some (some off)
  | n + 1, off =>
    match QV.Wire.parseUncompressed (a.drop off).toArray false, QV.Wire.parseUncompressed (b.drop off).toArray false with
    | .ok pa, .ok pb =>
      if pa.wire.map lowerU8 == pb.wire.map lowerU8 then testNNameFields a b n (off + pa.len) else some none
    | .ok _, _ => some none
    | _, .ok _ => some none
    | _, _ => none

/-- `helpers::names_equal` -/
def namesEqual (a b : Rdata) : Bool :=
  match testNNameFields a b 1 0 with
  | some (some len) => if len == a.length && len == b.length then true else a == b
  | some none => false
  | none => a == b

/-- `Rdata::equals(self, other, class, rr_type)` for the generated types -/
def rdataEquals : Eqv := fun cls t a b =>
  if t == 2 || t == 3 || t == 4 || t == 5 || t == 7 || t == 8 || t == 9 || t == 12 then namesEqual a b
  else if t == 1 && cls == 3 then          -- equals_as_ch_a
    if a.length != b.length then false
    else match testNNameFields a b 1 0 with
      | some (some len) => if len + 2 == a.length then a.drop len == b.drop len else a == b
      | some none => false
      | none => a == b
  else if t == 6 then                      -- equals_as_soa
    if a.length != b.length then false
    else match testNNameFields a b 2 0 with
      | some (some len) => if a.length - len != 20 then a == b else a.drop len == b.drop len
      | some none => false
      | none => a == b
  else if t == 15 then                     -- equals_as_mx
    if a.length != b.length then false
    else if a.length > 2 then a.take 2 == b.take 2 && namesEqual (a.drop 2) (b.drop 2)
    else a == b
  else a == b

end QV.Zone

namespace QV.Driver
open QV QV.NameL QV.Zone QV.Spec.Zone

/-- `Ttl::from(u32)` (src/rr/ttl.rs): values above `i32::MAX` are read as 0 -/
def ttlFrom (raw : Nat) : Nat := if raw > 2147483647 then 0 else raw

def sortStrs (l : List String) : List String := l.mergeSort (fun a b => decide (a ≤ b))

def dedupSorted : List String → List String
  | a :: b :: rest => if a = b then dedupSorted (b :: rest) else a :: dedupSorted (b :: rest)
  | l => l

def showName (n : Name) : String := hexOfList (toWire n)

def showRds (rds : List Rdata) : String := ",".intercalate (sortStrs (rds.map hexOfList))

def showRrset (s : Rrset) : String := s!"{s.ttl}:{showRds s.rdatas}"
def showTyped (s : Rrset) : String := s!"{s.rtype}:{s.ttl}:{showRds s.rdatas}"
def showORrset : Option Rrset → String
  | some s => showRrset s
  | none => "-"
def showSos : Option Name → String
  | some n => "sos=" ++ showName n
  | none => "sos=-"
def showTypedList (l : List Rrset) : String := "[" ++ "|".intercalate (sortStrs (l.map showTyped)) ++ "]"

def showLookup : LookupResult → String
  | .found s sos => s!"F {showRrset s} {showSos sos}"
  | .cname s sos => s!"C {showRrset s} {showSos sos}"
  | .referral c s => s!"R {showName c} {showRrset s}"
  | .noRecords sos => s!"N {showSos sos}"
  | .nxDomain => "X"
  | .wrongZone => "W"

def showAddrs : AddrsResult → String
  | .found a aaaa sos => s!"F a={showORrset a} aaaa={showORrset aaaa} {showSos sos}"
  | .referral c s => s!"R {showName c} {showRrset s}"
  | .nxDomain => "X"
  | .wrongZone => "W"

def showAll : AllResult → String
  | .found l sos => s!"F {showTypedList l} {showSos sos}"
  | .referral c s => s!"R {showName c} {showRrset s}"
  | .nxDomain => "X"
  | .wrongZone => "W"

def showO {α} (f : α → String) : Out Unit α → String
  | .ok a => f a
  | .err _ => "err"
  | .panic => "panic"

def showByNode (l : List (Name × List Rrset)) : String :=
  " ".intercalate (sortStrs (l.map (fun p => showName p.1 ++ "=" ++ showTypedList p.2)))

def showByRrset (l : List (Name × Rrset)) : String :=
  " ".intercalate (sortStrs (l.map (fun p => showName p.1 ++ "/" ++ showTyped p.2)))

def showIssue (isErr : Issue → Bool) (i : Issue) : String :=
  (if isErr i then "E:" else "W:") ++ i.tag ++
    (match i.name? with | some n => ":" ++ showName n | none => "")

def showValidate (isErr : Issue → Bool) : Option (List Issue) → String
  | none => "V!InvalidRdata"
  | some l => "V " ++ ",".intercalate (dedupSorted (sortStrs (l.map (showIssue isErr))))

/-- spec-side name extraction: the independent decoder of `QV.Spec.NameWire` -/
def specNameOf : NameOf := fun rd =>
  match QV.Spec.specDecodeUncompressed rd.toArray true with
  | some (w, _) => ofWire w
  | none => none

private def nameArg (s : String) : Option Name := (unhex s).bind (fun b => parseAll b.toList)
def optsArg (s : String) : Option Opts :=
  match s.toList with
  | [u, c] => match boolArg u.toString, boolArg c.toString with
    | some a, some b => some ⟨a, b⟩
    | _, _ => none
  | _ => none

/-- one step on model and spec: new states and the two result strings (`none` = bad step;
    spec result `none` = unconstrained) -/
def zoneStep (z : Zone) (sz : SZone) (step : String) : Option (Zone × SZone × String × Option String) :=
  match step.splitOn "," with
  | ["a", o, t, c, ttl, rd] =>
    match nameArg o, natArg t, natArg c, natArg ttl, unhex rd with
    | some owner, some t, some c, some ttl, some rd =>
      let r : Rec := ⟨owner, t, c, ttlFrom ttl, rd.toList⟩
      let (z', e) := addM rdataEquals z r
      let ms := match e with | none => "ok" | some e => "e:" ++ e.toString
      let (sz', ss) := match specAdd rdataEquals sz r with
        | .ok s' => (s', "ok")
        | .error e => (sz, "e:" ++ e.toString)
      some (z', sz', ms, some ss)
    | _, _, _, _, _ => none
  | ["l", n, t, o] =>
    match nameArg n, natArg t, optsArg o with
    | some n, some t, some o =>
      some (z, sz, showO showLookup (lookup z n t o),
        if constrained sz n o then some (showLookup (specLookup sz n t o)) else none)
    | _, _, _ => none
  | ["d", n, o] =>
    match nameArg n, optsArg o with
    | some n, some o =>
      some (z, sz, showO showAddrs (lookupAddrs z n o),
        if constrained sz n o then some (showAddrs (specLookupAddrs sz n o)) else none)
    | _, _ => none
  | ["x", n, o] =>
    match nameArg n, optsArg o with
    | some n, some o =>
      some (z, sz, showO showAll (lookupAll z n o),
        if constrained sz n o then some (showAll (specLookupAll sz n o)) else none)
    | _, _ => none
  | ["n"] => some (z, sz, showByNode (iterByNode z), some (showByNode (specIterByNode sz)))
  | ["r"] => some (z, sz, showByRrset (iterByRrset z), some (showByRrset (specIterByRrset sz)))
  | ["s"] => some (z, sz, "S " ++ showORrset (soa z), some ("S " ++ showORrset (specSoa sz)))
  | ["t"] => some (z, sz, "T " ++ showORrset (ns z), some ("T " ++ showORrset (specNs sz)))
  | ["v"] => some (z, sz, showValidate Issue.isError (validate parseAll z),
                   some (showValidate specIsError (specValidate specNameOf sz)))
  | _ => none

def zoneSession (z : Zone) (sz : SZone) (steps : List String) : Option (List String × Option (List String)) :=
  let rec go (z : Zone) (sz : SZone) (ms : List String) (ss : Option (List String)) : List String → Option (List String × Option (List String))
    | [] => some (ms.reverse, ss.map List.reverse)
    | st :: rest =>
      match zoneStep z sz st with
      | none => none
      | some (z', sz', m, s) =>
        go z' sz' (m :: ms) (match ss, s with | some l, some x => some (x :: l) | _, _ => none) rest
  go z sz [] (some []) steps

/-- ops of group `zone` -/
def zoneHandler : Handler := fun op args =>
  match op, args with
  | "zone", [apex, cls, glue, steps] =>
    match nameArg apex, natArg cls, (if glue = "n" then some GluePolicy.narrow else if glue = "w" then some GluePolicy.wide else none) with
    | some apex, some cls, some glue =>
      match zoneSession (Zone.new apex cls glue) ⟨apex, cls, glue, []⟩ (steps.splitOn ";") with
      | some (ms, ss) =>
        some ("ok " ++ ";".intercalate ms,
              match ss with | some l => "ok " ++ ";".intercalate l | none => "-")
      | none => some bad
    | _, _, _ => some bad
  | _, _ => none

end QV.Driver
