import QV.Driver.Util
import QV.Model.Pool
import QV.Spec.Pool

/-!
  ops of group `pool` (C29):  `pool <scenario> <schedule> <trace>`

  `<trace>` is the lock-granularity event log of one execution of the real `src/thread.rs` under
  the controlled scheduler: `;`-separated events, `,`-separated fields (t = thread id):

    ar,t            a thread outside the group starts           cp,t,n   t calls start_pool(n workers)
    cs,t,k / co,t,k t calls submit / submit_or_spawn(task k)     cd,t / cq,t / ca,t
                                                                group / pool shut_down, await_shutdown
    rt,t,op,res     the call returned (res = ok | rej)
    aq,t,L          t acquired mutex L (G = group records, P = pool records)
    rl,t,L,a,b,c    t released L by dropping the guard; snapshot of the record
                    (G: thread_count, shutting_down, pools.len();  P: queue.len(), available_workers, shutting_down)
    wt,t,L,cv,timed,a,b,c   t released L by waiting on cv (t = task_wakeup, a = available_wakeup,
                    s = shutdown_wakeup), timed = 1 for wait_timeout
    n1,t,cv,u|-     t called cv.notify_one(); it woke u / nobody was waiting     na,t,cv   notify_all
    sw,t,c / sf,t   t spawned group thread c / the spawn failed
    to,t / sp,t     t's timed wait timed out / t woke spuriously
    rn,t,k / fn,t,k t starts / finishes task k          ex,t   group thread t returned
    dl / ms / pn    the scheduler found a deadlock / the step bound was hit / the code panicked

  model column: `ok` iff the log is a path of `QV.Pool.next` with matching snapshots, notify
  calls, wait/return distinction and call results; else `err:step<i>:<why>`.
  spec column: `QV.Spec.Pool.verdict` on the same log (`-` when the step bound was hit).
-/
namespace QV.Driver
open QV QV.Pool

namespace PoolTrace

structure V where
  s : State
  /-- notify calls issued by each thread since it acquired its lock: (thread, cv, all?, target) -/
  pending : List (Nat × Char × Bool × Option Nat)
  /-- task of the submission in progress per thread -/
  lastTask : List (Nat × Nat)

def cvOfWait : Local → Option (Char × Bool)
  | .wWait .perm => some ('t', false)
  | .wWait .aux => some ('t', true)
  | .subWait _ => some ('a', false)
  | .awWait => some ('s', false)
  | .rhWait => some ('s', true)
  | _ => none

/-- the notify calls the model's critical section of thread t performs, in program order -/
def expectedNotifies (s : State) (t : Nat) : List (Char × Bool) :=
  let endN : List (Char × Bool) := if s.gShutting && s.threadCount - 1 == 0 then [('s', true)] else []
  match s.threads[t]? with
  | some (.subInP _) | some (.sosInP _) =>
    if !s.pShutting && s.available > s.queue.length then [('t', false)] else []
  | some .shInG => [('s', true)]
  | some .shInP => [('t', true), ('a', true)]
  | some .shInG2 => [('s', true)]
  | some .pshInP => [('t', true), ('a', true)]
  | some (.wInP _ reg _) => if reg then [] else [('a', false)]
  | some .endInG => endN
  | some (.rhInG _) => if s.gShutting then endN else []
  | some .rhInG2 => endN
  | _ => []

def fail (i : Nat) (why : String) : Except String V := .error s!"step{i}:{why}"

def nat? (s : String) : Option Nat := s.toNat?

def step (cfg : Cfg) (i : Nat) (v : V) (f : List String) : Except String V := do
  let s := v.s
  let app (l : Label) (why : String) : Except String State :=
    match next cfg s l with
    | some s' => .ok s'
    | none => .error s!"step{i}:{why}"
  let pc (t : Nat) : Option Local := s.threads[t]?
  match f with
  | ["ar", t] =>
    match nat? t with
    | some t => if t = s.threads.length then do let s' ← app .arrive "arrive"; pure { v with s := s' } else fail i "tid"
    | none => fail i "parse"
  | ["cp", t, n] =>
    match nat? t, nat? n with
    | some t, some n => do let s' ← app (.callStartPool t n) "call-start_pool"; pure { v with s := s' }
    | _, _ => fail i "parse"
  | [c, t, k] =>
    if c = "cs" ∨ c = "co" then
      match nat? t, nat? k with
      | some t, some k =>
        if k ≠ s.tasks.length then fail i "task-id" else do
        let s' ← app (if c = "cs" then .callSubmit t else .callSos t) "call submit"
        pure { v with s := s', lastTask := (t, k) :: v.lastTask.filter (·.1 != t) }
      | _, _ => fail i "parse"
    else if c = "aq" then
      match nat? t with
      | some t => do
        let s' ← app (.acq t) "acquire"
        let ok := if k = "G" then s.gLock.isNone && s'.gLock == some t && s'.pLock == s.pLock
                  else if k = "P" then s.pLock.isNone && s'.pLock == some t && s'.gLock == s.gLock
                  else false
        if ok then pure { v with s := s' } else fail i "acquired-a-different-lock-than-the-model"
      | none => fail i "parse"
    else if c = "na" then
      match nat? t with
      | some t => pure { v with pending := v.pending ++ [(t, k.front, true, none)] }
      | none => fail i "parse"
    else if c = "sw" then
      match nat? t, nat? k with
      | some t, some ch =>
        if ch ≠ s.threads.length then fail i "child-tid" else do
        let s' ← app (.spawn t false) "spawn"; pure { v with s := s' }
      | _, _ => fail i "parse"
    else if c = "rn" ∨ c = "fn" then
      match nat? t, nat? k with
      | some t, some k =>
        let holds := match pc t with
          | some (.wRun _ k') | some (.auxStart k') => c = "rn" && k' = k
          | some (.wRunning _ k') | some (.auxRunning k') => c = "fn" && k' = k
          | _ => false
        if !holds then fail i "thread-does-not-hold-this-task" else do
        let s' ← app (if c = "rn" then .run t else .fin t) "run/fin"; pure { v with s := s' }
      | _, _ => fail i "parse"
    else fail i "unknown-event"
  | ["cd", t] => match nat? t with
    | some t => do let s' ← app (.callShutdown t) "call-shut_down"; pure { v with s := s' }
    | none => fail i "parse"
  | ["cq", t] => match nat? t with
    | some t => do let s' ← app (.callPoolShutdown t) "call-pool-shut_down"; pure { v with s := s' }
    | none => fail i "parse"
  | ["ca", t] => match nat? t with
    | some t => do let s' ← app (.callAwait t) "call-await_shutdown"; pure { v with s := s' }
    | none => fail i "parse"
  | ["sf", t] => match nat? t with
    | some t => do let s' ← app (.spawn t true) "failed-spawn"; pure { v with s := s' }
    | none => fail i "parse"
  | ["to", t] => match nat? t with
    | some t => do let s' ← app (.timeout t) "timeout"; pure { v with s := s' }
    | none => fail i "parse"
  | ["sp", t] => match nat? t with
    | some t => do let s' ← app (.spurious t) "spurious-wake-up"; pure { v with s := s' }
    | none => fail i "parse"
  | ["ex", t] => match nat? t with
    | some t => if pc t == some .exited then pure v else fail i "thread-returned-but-the-model's-has-not-ended"
    | none => fail i "parse"
  | ["n1", t, cv, u] =>
    match nat? t with
    | some t =>
      let tgt : Option (Option Nat) := if u = "-" then some none else (nat? u).map some
      match tgt with
      | some tg => pure { v with pending := v.pending ++ [(t, cv.front, false, tg)] }
      | none => fail i "parse"
    | none => fail i "parse"
  | ["rt", t, op, res] =>
    match nat? t with
    | some t =>
      if pc t != some .idle then fail i "call-returned-but-the-model's-call-has-not" else
      if op = "cs" ∨ op = "co" then
        match v.lastTask.find? (·.1 == t) with
        | some (_, k) =>
          let acc := (s.tasks[k]?.map Status.accepted).getD false
          if acc == (res == "ok") then pure v else fail i "submission-result-differs-from-the-model"
        | none => fail i "return-without-call"
      else pure v
    | none => fail i "parse"
  | "rl" :: t :: l :: rest | "wt" :: t :: l :: rest =>
    let isWait := f.head? == some "wt"
    match nat? t with
    | none => fail i "parse"
    | some t =>
      let snap? : Option (Nat × Nat × Nat) := match (if isWait then rest.drop 2 else rest) with
        | [a, b, c] => match nat? a, nat? b, nat? c with
          | some a, some b, some c => some (a, b, c)
          | _, _, _ => none
        | _ => none
      match snap? with
      | none => fail i "parse"
      | some (a, b, c) =>
        let mine := v.pending.filter (·.1 == t)
        let target : Option Nat := (mine.filterMap fun (_, _, all, tg) => if all then none else tg).head?
        -- the section ends by returning (`rl`) or by waiting (`wt`): this decides the model's
        -- "deadline already passed" (worker) / "throttle the respawn" (respawn handle) choice
        let flag := match pc t with
          | some (.wInP _ _ _) => !isWait
          | some (.rhInG _) => isWait
          | _ => false
        let exp := expectedNotifies s t
        if mine.map (fun (_, cv, all, _) => (cv, all)) != exp then fail i "notify-calls-differ-from-the-model" else
        match next cfg s (.rel t target flag) with
        | none => fail i "release/wait-not-enabled-in-the-model"
        | some s' =>
          let waitOk := match s'.threads[t]? with
            | some l' => match cvOfWait l' with
              | some (cv, timed) => isWait && rest.head? == some (String.singleton cv) && rest[1]? == some (if timed then "1" else "0")
              | none => !isWait
            | none => false
          if !waitOk then fail i "wait/return-differs-from-the-model" else
          let lockOk := if l = "G" then s.gLock == some t && s'.gLock.isNone else s.pLock == some t && s'.pLock.isNone
          if !lockOk then fail i "released-a-different-lock-than-the-model" else
          let snapOk := if l = "G" then s'.threadCount == a && s'.gShutting == (b == 1) && s'.hasPool == (c == 1)
                        else s'.queue.length == a && s'.available == b && s'.pShutting == (c == 1)
          if !snapOk then fail i s!"snapshot-differs-from-the-model" else
          pure { v with s := s', pending := v.pending.filter (·.1 != t) }
  | _ => fail i "unknown-event"

def validate (cfg : Cfg) (evs : List (List String)) : String :=
  let rec go (i : Nat) (v : V) : List (List String) → String
    | [] => "ok"
    | ["dl"] :: _ | ["ms"] :: _ | ["pn"] :: _ => "ok"
    | f :: rest => match step cfg i v f with
      | .ok v' => go (i + 1) v' rest
      | .error e => "err:" ++ e
  go 0 { s := init, pending := [], lastTask := [] } evs

open QV.Spec.Pool in
def toSpecEv (f : List String) : Option Ev :=
  let n (s : String) := s.toNat?.getD 0
  match f with
  | ["cs", t, k] => some (.call (n t) .submit (n k))
  | ["co", t, k] => some (.call (n t) .sos (n k))
  | ["cd", t] => some (.call (n t) .shutdown 0)
  | ["cq", t] => some (.call (n t) .poolShutdown 0)
  | ["ca", t] => some (.call (n t) .await 0)
  | ["cp", t, _] => some (.call (n t) .startPool 0)
  | ["rt", t, op, res] =>
    let o : Op := if op = "cs" then .submit else if op = "co" then .sos else if op = "cd" then .shutdown
      else if op = "cq" then .poolShutdown else if op = "ca" then .await else .startPool
    some (.ret (n t) o (res == "ok"))
  | ["rn", t, k] => some (.run (n t) (n k))
  | ["fn", t, k] => some (.fin (n t) (n k))
  | ["sw", p, c] => some (.spawn (n p) (n c))
  | "rl" :: t :: "G" :: _ => some (.relG (n t))
  | ["ex", t] => some (.exit (n t))
  | ["dl"] => some .deadlock
  | ["pn"] => some .panic
  | ["ms"] => some .stepBound
  | _ :: t :: _ => some (.other (n t))
  | _ => none

end PoolTrace

def poolHandler : Handler := fun op args =>
  match op, args with
  | "pool", [scen, _sched, trace] =>
    let linger := (scen.splitOn ".")[1]? == some "1"
    let evs := (trace.splitOn ";").map (·.splitOn ",")
    let m := PoolTrace.validate { linger := linger, fixed := true } evs
    let sevs := evs.filterMap PoolTrace.toSpecEv
    let sp := if sevs.contains .stepBound then "-" else
      match QV.Spec.Pool.verdict sevs with
      | none => "ok"
      | some w => "err:" ++ w
    some (m, sp)
  | _, _ => none

end QV.Driver
