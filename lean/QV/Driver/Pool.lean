import QV.Driver.Util

namespace QV.Driver
open QV

/-- ops of group `pool` — stub (not built yet) -/
def poolHandler : Handler := fun _ _ => none

end QV.Driver
