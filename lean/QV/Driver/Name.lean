import QV.Driver.Util

namespace QV.Driver
open QV

/-- ops of group `name` — stub (not built yet) -/
def nameHandler : Handler := fun _ _ => none

end QV.Driver
