import QV.Driver.Util
import QV.Model.Name
import QV.Spec.NameText

/-!
  ops of group `name` (C16).  Names are passed as wire hex, texts as the hex of their UTF-8
  octets.  A wire argument that is not a valid name gives `err` in every column.

    npres <wire> <texthex>   Display: the text is what the implementation printed (recorded input);
                             model: prints the same?  spec: does the text denote the name?
    np <texthex>             FromStr                      -> ok <wire> <n_labels> | err:<Variant>
    nrt <wire>               parse(display(name))         -> ok <wire>
    neq <a> <b>              a == b                       -> ok 0|1
    ncmp <a> <b>             a.cmp(b)                     -> ok lt|eq|gt
    ncmp3 <a> <b> <c>        the three comparisons + law flags -> ok ab bc ac ba anti trans
    nhash <a>                octets fed to the hasher     -> ok <hex>
    nsub <a> <b>             a.eq_or_subdomain_of(b)      -> ok 0|1
    nsup <a> <k>             a.superdomain(k)             -> ok <wire> | none
    nlab <a>                 len, is_root, is_wildcard, labels() -> ok <n> <0|1> <0|1> <l0>,<l1>,…
    nlow <a>                 Box<LowercaseName>::from     -> ok <wire>
    nwr <a> <k>              wire_repr_to(k), wire_repr_from(k) -> ok <to> <from> | panic
    nidx <a> <i>             a[i]                         -> ok <label> | panic
    lcmp <l1> <l2>           Label cmp / eq               -> ok lt|eq|gt 0|1 | err (label > 63)
    lhash <l>                octets fed to the hasher by a Label -> ok <hex> | err
    nb <script>              NameBuilder script, `;`-separated steps: p<hh> try_push, s<hex>
                             try_push_slice, n next_label, q is_fully_qualified, f finish,
                             x<wire> finish_with_suffix -> `ok ` + `;`-joined step results
-/

namespace QV.Driver
open QV QV.Name QV.Spec.NameText

private def b01 (b : Bool) : String := if b then "1" else "0"

private def labelsHex (ls : List (List UInt8)) : String := ",".intercalate (ls.map hexOfList)

/-- run `f` on a wire argument that must be a valid name (model gate: `wfb`; spec gate: `fromWire`) -/
private def withName (h : String) (m : List UInt8 → String) (s : DName → String) : Option (String × String) :=
  match unhex h with
  | none => some bad
  | some w =>
    let wl := w.toList
    some (if wfb wl then m wl else "err:NotWF",
          match fromWire wl with
          | some n => s n
          | none => "err")

private def withNames2 (h1 h2 : String) (m : List UInt8 → List UInt8 → String) (s : DName → DName → String) :
    Option (String × String) :=
  match unhex h1, unhex h2 with
  | some a, some b =>
    let al := a.toList
    let bl := b.toList
    some (if wfb al && wfb bl then m al bl else "err:NotWF",
          match fromWire al, fromWire bl with
          | some x, some y => s x y
          | _, _ => "err")
  | _, _ => some bad

private def ordS : Ordering → String := ordStr

private def lawFlags (ab bc ac ba : Ordering) : String :=
  let anti := ab == ba.swap
  let trans := !((ab != .gt && bc != .gt && ac == .gt) || (ab == .lt && bc == .lt && ac != .lt))
  s!"{ordS ab} {ordS bc} {ordS ac} {ordS ba} {b01 anti} {b01 trans}"

/-! model / spec interpreters of builder scripts -/

private def showUnit : Out NameErr Unit → String
  | .ok _ => "ok"
  | .err e => "err:" ++ e.toString
  | .panic => "panic"

private def showBuilt : Out NameErr Built → String
  | .ok r => s!"ok {hexOfList r.wire} {r.offsets.length}"
  | .err e => "err:" ++ e.toString
  | .panic => "panic"

private def octetArg (s : String) : Option UInt8 :=
  match unhex s with
  | some b => if b.size = 1 then some (b.getD 0 0) else none
  | none => none

/-- `none` = malformed script -/
private def runScriptM (b : Builder) (outs : List String) : List String → Option (List String)
  | [] => some outs.reverse
  | step :: rest =>
    let op := step.take 1
    let arg := (step.drop 1).toString
    if op == "p" then
      match octetArg arg with
      | some o =>
        let (b', r) := b.tryPush o
        if r = .panic then some ["panic"] else runScriptM b' (showUnit r :: outs) rest
      | none => none
    else if op == "s" then
      match unhex arg with
      | some os =>
        let (b', r) := b.tryPushSlice os.toList
        if r = .panic then some ["panic"] else runScriptM b' (showUnit r :: outs) rest
      | none => none
    else if step = "n" then
      let (b', r) := b.nextLabel
      if r = .panic then some ["panic"] else runScriptM b' (showUnit r :: outs) rest
    else if step = "q" then runScriptM b (b01 b.isFullyQualified :: outs) rest
    else if step = "f" then
      let r := b.finish
      if r = .panic then some ["panic"] else some (showBuilt r :: outs).reverse
    else if op == "x" then
      match unhex arg with
      | some sfx =>
        if wfb sfx.toList then
          let r := b.finishWithSuffix sfx.toList
          if r = .panic then some ["panic"] else some (showBuilt r :: outs).reverse
        else none
      | none => none
    else none

private def showRef : Except BuildErr RefBuilder → String
  | .ok _ => "ok"
  | .error e => "err:" ++ e.toString

private def showRefName : Except BuildErr DName → String
  | .ok n => s!"ok {hexOfList (toWire n)} {n.length + 1}"
  | .error e => "err:" ++ e.toString

private def runScriptS (b : RefBuilder) (outs : List String) : List String → Option (List String)
  | [] => some outs.reverse
  | step :: rest =>
    let op := step.take 1
    let arg := (step.drop 1).toString
    if op == "p" then
      match octetArg arg with
      | some o =>
        let r := b.push o
        runScriptS (match r with | .ok b' => b' | .error _ => b) (showRef r :: outs) rest
      | none => none
    else if op == "s" then
      match unhex arg with
      | some os =>
        let r := b.pushSlice os.toList
        runScriptS (match r with | .ok b' => b' | .error _ => b) (showRef r :: outs) rest
      | none => none
    else if step = "n" then
      let r := b.nextLabel
      runScriptS (match r with | .ok b' => b' | .error _ => b) (showRef r :: outs) rest
    else if step = "q" then runScriptS b (b01 b.cur.isEmpty :: outs) rest
    else if step = "f" then some (showRefName b.finish :: outs).reverse
    else if op == "x" then
      match unhex arg with
      | some sfx =>
        match fromWire sfx.toList with
        | some n => some (showRefName (b.finishWithSuffix n) :: outs).reverse
        | none => none
      | none => none
    else none

def nameHandler : Handler := fun op args =>
  match op, args with
  | "npres", [w, t] =>
    match unhex t with
    | some text =>
      withName w
        (fun wl => match displayName wl with
          | .ok t' => if t' = text.toList then "ok" else "differs:" ++ hexOfList t'
          | .err e => "err:" ++ e.toString
          | .panic => "panic")
        (fun n => if specFromStr text.toList = some (toWire n) then "ok" else "err")
    | none => some bad
  | "np", [t] =>
    match unhex t with
    | some text =>
      some (match fromStr text.toList with
            | .ok r => s!"ok {hexOfList r.wire} {r.offsets.length}"
            | .err e => "err:" ++ e.toString
            | .panic => "panic",
            match parseText text.toList with
            | some n => if validName n then s!"ok {hexOfList (toWire n)} {n.length + 1}" else "err"
            | none => "err")
    | none => some bad
  | "nrt", [w] =>
    withName w
      (fun wl => match displayName wl with
        | .ok t => (match fromStr t with
          | .ok r => "ok " ++ hexOfList r.wire
          | .err e => "err:" ++ e.toString
          | .panic => "panic")
        | .err e => "err:" ++ e.toString
        | .panic => "panic")
      (fun n => "ok " ++ hexOfList (toWire n))
  | "neq", [a, b] =>
    withNames2 a b (fun x y => "ok " ++ b01 (nameEq x y))
      (fun x y => "ok " ++ b01 (decide (SameName x y)))
  | "ncmp", [a, b] =>
    withNames2 a b (fun x y => "ok " ++ ordS (nameCmp x y)) (fun x y => "ok " ++ ordS (canonicalCmp x y))
  | "ncmp3", [a, b, c] =>
    match unhex a, unhex b, unhex c with
    | some a, some b, some c =>
      let (x, y, z) := (a.toList, b.toList, c.toList)
      some (if wfb x && wfb y && wfb z then
              "ok " ++ lawFlags (nameCmp x y) (nameCmp y z) (nameCmp x z) (nameCmp y x)
            else "err:NotWF",
            match fromWire x, fromWire y, fromWire z with
            | some p, some q, some r =>
              "ok " ++ lawFlags (canonicalCmp p q) (canonicalCmp q r) (canonicalCmp p r) (canonicalCmp q p)
            | _, _, _ => "err")
    | _, _, _ => some bad
  | "nhash", [a] =>
    withName a (fun x => "ok " ++ hexOfList (hashInput x)) (fun n => "ok " ++ hexOfList (toWire (lowerName n)))
  | "nsub", [a, b] =>
    withNames2 a b (fun x y => "ok " ++ b01 (eqOrSubdomainOf x y))
      (fun x y => "ok " ++ b01 (decide (IsSubdomainOrEq x y)))
  | "nsup", [a, k] =>
    match natArg k with
    | some k =>
      withName a
        (fun x => match Name.superdomain x k with
          | some w => "ok " ++ hexOfList w
          | none => "none")
        (fun n => match Spec.NameText.superdomain n k with
          | some m => "ok " ++ hexOfList (toWire m)
          | none => "none")
    | none => some bad
  | "nlab", [a] =>
    withName a
      (fun x => match Name.isWildcard x with
        | .ok wc => s!"ok {nLabels x} {b01 (isRoot x)} {b01 wc} {labelsHex (labelsOf x)}"
        | .err e => "err:" ++ e.toString
        | .panic => "panic")
      (fun n => s!"ok {n.length + 1} {b01 n.isEmpty} {b01 (Spec.NameText.isWildcard n)} {labelsHex (allLabels n)}")
  | "nlow", [a] =>
    withName a (fun x => "ok " ++ hexOfList (makeAsciiLowercase x)) (fun n => "ok " ++ hexOfList (toWire (lowerName n)))
  | "nwr", [a, k] =>
    match natArg k with
    | some k =>
      withName a
        (fun x => match wireReprTo x k, wireReprFrom x k with
          | .ok t, .ok f => s!"ok {hexOfList t} {hexOfList f}"
          | _, _ => "panic")
        (fun n =>
          if k = n.length + 1 then s!"ok {hexOfList (toWire n)} -"
          else if k ≤ n.length then
            s!"ok {hexOfList ((toWire (n.take k)).dropLast)} {hexOfList (toWire (n.drop k))}"
          else "panic")
    | none => some bad
  | "nidx", [a, i] =>
    match natArg i with
    | some i =>
      withName a
        (fun x => match index x i with
          | .ok l => "ok " ++ hexOfList l
          | _ => "panic")
        (fun n => match (allLabels n)[i]? with
          | some l => "ok " ++ hexOfList l
          | none => "panic")
    | none => some bad
  | "lcmp", [a, b] =>
    match unhex a, unhex b with
    | some x, some y =>
      let (x, y) := (x.toList, y.toList)
      some (if x.length > Gen.MAX_LABEL_LEN || y.length > Gen.MAX_LABEL_LEN then "err:LabelTooLong"
            else s!"ok {ordS (labelCmp x y)} {b01 (labelEq x y)}",
            if x.length > 63 || y.length > 63 then "err"
            else s!"ok {ordS (cmpOctetString (lowerLabel x) (lowerLabel y))} {b01 (lowerLabel x == lowerLabel y)}")
    | _, _ => some bad
  | "lhash", [a] =>
    match unhex a with
    | some x =>
      let x := x.toList
      some (if x.length > Gen.MAX_LABEL_LEN then "err:LabelTooLong" else "ok " ++ hexOfList (labelHashInput x),
            if x.length > 63 then "err" else "ok " ++ hexOfList (UInt8.ofNat x.length :: lowerLabel x))
    | none => some bad
  | "nb", [script] =>
    let steps := script.splitOn ";"
    match runScriptM Builder.new [] steps, runScriptS ⟨[], []⟩ [] steps with
    | some m, some s =>
      some (if m = ["panic"] then "panic" else "ok " ++ ";".intercalate m, "ok " ++ ";".intercalate s)
    | _, _ => some bad
  | _, _ => none

end QV.Driver
