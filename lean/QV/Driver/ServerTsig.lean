import QV.Driver.Util
import QV.Driver.Server
import QV.Spec.ServerTsig
import QV.Model.Server

/-!
  group `srvtsig` (C10); formats are documented at the top of harness/src/g_srvtsig.rs.

    srvt <u|t> <payload> <catalog> <keys> <reqhex> <sign> <now>
        the request is signed by the Lean spec signer (`Spec.ServerTsig.signRequest`: digest input of
        `QV.Spec.Tsig` + `QV.Hmac.hmac`) at `now`; model column = canonical text of what the server
        model (`Server.handleMessage` with `cfg.keys`, clock = `now`) answers; spec column `-`.
    audt <u|t> <payload> <catalog> <keys> <reqhex> <sign> <now> <resp> <plain>
        model column `ok`; spec column = `tags:` + the findings of `Spec.ServerTsig.audit` on the
        implementation's own octets + `#<class>`.
-/
namespace QV.Driver
open QV QV.Spec QV.Spec.ServerTsig

namespace SrvT

def hmReal : Hm := fun sha256 key data =>
  (Hmac.hmac (if sha256 then .HmacSha256 else .HmacSha1) key.toArray data.toArray).toList

def unhexL (s : String) : Option (List UInt8) := (unhex s).map Array.toList

def parseKey (s : String) : Option KeyCfg :=
  match s.splitOn "/" with
  | [n, a, k] => do
    let n ← unhexL n
    let a ← (if a = "1" then some false else if a = "256" then some true else none)
    let k ← unhexL k
    pure ⟨n, a, k⟩
  | _ => none

def parseKeys (s : String) : Option (List KeyCfg) :=
  if s = "-" then some [] else (s.splitOn ",").mapM parseKey

def parseInt (s : String) : Option Int :=
  if s.startsWith "-" then (s.drop 1).toNat?.map (fun n => - (n : Int)) else s.toNat?.map (fun n => (n : Int))

def parseTamper (s : String) : Option (Option (Nat × Nat)) :=
  if s = "-" then some none else
  match s.splitOn "x" with
  | [p, x] => do
    let p ← p.toNat?
    let x ← x.toNat?
    pure (some (p, x))
  | _ => none

def parseSign (s : String) : Option SignParams :=
  match s.splitOn "," with
  | [skey, salg, hash, secret, offset, fudge, maclen, tamper, tweak, idmode, err, other, cls, ttl, place] => do
    let skey ← unhexL skey
    let salg ← unhexL salg
    let sha256 ← (if hash = "1" then some false else if hash = "256" then some true else none)
    let secret ← unhexL secret
    let offset ← parseInt offset
    let fudge ← fudge.toNat?
    let maclen ← maclen.toNat?
    let tamper ← parseTamper tamper
    let tweak ← tweak.toNat?
    let idmode ← idmode.toNat?
    let err ← err.toNat?
    let other ← unhexL other
    let cls ← cls.toNat?
    let ttl ← ttl.toNat?
    pure ⟨skey, salg, sha256, secret, offset, fudge, maclen, tamper, tweak, idmode, err, other, cls, ttl, place⟩
  | _ => none

/-! ### canonical text of a response (same format as `canonical_t` in harness/src/g_srvtsig.rs) -/

def hex4 (n : Nat) : String :=
  String.ofList [hexDigit (n / 4096 % 16), hexDigit (n / 256 % 16), hexDigit (n / 16 % 16), hexDigit (n % 16)]

def hex8 (n : Nat) : String := hex4 (n / 65536) ++ hex4 (n % 65536)

def rrStr (r : DRr) : String := s!"{hexOfList r.owner}/{r.ty}/{r.cls}/{r.rawTtl}/{hexOfList r.rdata}"

def secStr (l : List DRr) : String :=
  let v := (l.map rrStr).toArray.qsort (· < ·)
  "[" ++ ",".intercalate v.toList ++ "]"

def relTime (t now : Nat) : String := toString ((t : Int) - (now : Int))

/-- `empty` | `valid<n>` | `invalid<n>` | `nokey<n>`: RFC 8945 verification of the response MAC -/
def macStatus (msg : Bytes) (t : DRr) (f : Tsig.RdataFields) (keys : List KeyCfg) (prior : List UInt8) : String :=
  if f.mac = [] then "empty" else
  match Tsig.labelsOf t.owner with
  | none => s!"nokey{f.mac.length}"
  | some kn =>
    match findKey keys kn with
    | none => s!"nokey{f.mac.length}"
    | some k =>
      let v : Tsig.Vars := { keyName := kn, algName := f.algName, timeSigned := f.timeSigned, fudge := f.fudge,
                             error := f.error, other := f.other }
      let sha256 := Tsig.outputSizeOf f.algName = some 32
      let tag := hmReal sha256 k.secret (Tsig.digestInput .response (msg.extract 0 t.pos).toList f.originalId v prior)
      if tag = f.mac then s!"valid{f.mac.length}" else s!"invalid{f.mac.length}"

def canonicalT (msg : Bytes) (now : Nat) (keys : List KeyCfg) (prior : List UInt8) : String :=
  match specDecodeMsg msg with
  | none => s!"undecodable len={msg.size}"
  | some d =>
    if (d.an ++ d.ns ++ d.ar).any (fun r => !r.rdOk) then s!"undecodable len={msg.size}" else
    let q := if d.questions.isEmpty then "-" else
      "+".intercalate (d.questions.map (fun q => s!"{hexOfList q.qname}/{q.qtype}/{q.qclass}"))
    let opts := d.ar.filter (fun r => r.ty = 41)
    let tsigs := d.ar.filter (fun r => r.ty = 250)
    let rest := d.ar.filter (fun r => r.ty ≠ 41 ∧ r.ty ≠ 250)
    let opt := if opts.isEmpty then "-" else
      "+".intercalate (opts.map (fun o => s!"{hexOfList o.owner}/{o.cls}/{hex8 o.rawTtl}/{hexOfList o.rdata}"))
    let last := (d.ar.getLast?.map (·.ty)) = some 250
    let tsig := if tsigs.isEmpty then "-" else
      "+".intercalate (tsigs.map (fun t =>
        match Tsig.parseRdata t.rdata with
        | none => s!"badrdata:{hexOfList t.rdata}"
        | some f =>
          let other := if f.other.length = 6 then "t" ++ relTime (Tsig.nat48 f.other) now else hexOfList f.other
          let status := if tsigs.length = 1 ∧ last then macStatus msg t f keys prior else s!"unchecked{f.mac.length}"
          let algWire := t.rdata.take (Tsig.canonName f.algName).length
          s!"{hexOfList t.owner}/{t.cls}/{t.rawTtl}/{hexOfList algWire}/{relTime f.timeSigned now}/{f.fudge}/{status}/{f.originalId}/{f.error}/{other}/{if last then "last" else "notlast"}"))
    s!"R id={d.id} flags={hex4 d.flags} q={q} an={secStr d.an} ns={secStr d.ns} ar={secStr rest} opt={opt} tsig={tsig} len={msg.size}"

def parseRespT (s : String) : Option ServerTsig.Resp :=
  if s = "none" then some .none else if s = "panic" then some .panic else (unhex s).map .bytes

def mkKeys (keys : List KeyCfg) : List Server.Key :=
  keys.map (fun k => ⟨Tsig.lowerName k.name, if k.sha256 then .HmacSha256 else .HmacSha1, k.secret⟩)

end SrvT

open SrvT in
def srvtHandler : Handler := fun op args =>
  match op, args with
  | "srvt", [tr, payload, cat, keys, req, sign, now] =>
    match payload.toNat?, parseCatalog cat, parseKeys keys, unhexL req, parseSign sign, now.toNat? with
    | some p, some c, some ks, some r, some sp, some now =>
      if r.length < 12 then some bad else
      match c.mapM mkZoneEntry with
      | some zs =>
        let sg := signRequest hmReal r sp now
        let cfg : Server.Cfg := { payload := p, zones := zs, keys := mkKeys ks }
        let t := if tr = "t" then Server.Transport.tcp else .udp
        let res := match Server.handleMessage cfg t now 65535 sg.msg.toArray with
          | .ok (some b) => canonicalT b now ks (priorMac sg)
          | .ok none => "none"
          | .err _ => "err"
          | .panic => "panic"
        some (res, "-")
      | none => some bad
    | _, _, _, _, _, _ => some bad
  | "audt", [tr, payload, cat, keys, req, sign, now, resp, plain] =>
    match payload.toNat?, parseCatalog cat, parseKeys keys, unhexL req, parseSign sign, now.toNat?,
          parseRespT resp, parseRespT plain with
    | some p, some c, some ks, some r, some sp, some now, some rs, some pl =>
      if r.length < 12 then some bad else
      let sg := signRequest hmReal r sp now
      let (tags, cls) := audit hmReal c p ks sg.msg.toArray now (tr ≠ "t") rs pl
      some ("ok", "tags:" ++ ",".intercalate tags ++ "#" ++ cls)
    | _, _, _, _, _, _, _, _ => some bad
  | _, _ => none

end QV.Driver
