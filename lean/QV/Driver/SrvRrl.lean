import QV.Driver.Server
import QV.Driver.Rrl
import QV.Driver.SrvSafe
import QV.Driver.ServerTsig
import QV.Model.ServerRrl

/-!
  group `srvsafe`, op `srvh` (C01 with response rate limiting):

    srvh <payload> <catalog> <keys> <ne> <nx> <er> <window> <slip> <v4len> <v6len> <size> <steps>

  one whole history of requests against ONE server with RRL enabled; model =
  `QV.Server.handleMessageRrl` (lean/QV/Model/ServerRrl.lean) threaded through the table. steps
  (`;`-separated; format at the top of harness/src/g_srvsafe.rs):
    `s<secs>` = `verif_rrl_shift(secs)`;
    `q,<src>,<u|t>,<reqhex>,<rcode>,<rnd>,<cands>` = one request as given;
    `g,<src>,<u|t>,<reqhex>,<sign>,<now>,<rcode>,<rnd>,<cands>` = one request signed (by the spec signer
      of group `srvtsig`, at the recorded second `now`, which is also the model's wall clock);
  with the recorded environment inputs (DESIGN §3.5): `cands` = `/`-separated
  `namehex:idx:dest:qhash` — the probe of the real table's `RandomState` (bucket index, masked
  destination, 32-bit name hash) for the key (source, name, category of `rcode`), for every name
  the handler could hash; `rnd` = the outcome of `should_slip`'s random draw (read by the model only
  for slip ≥ 2 and only when it has decided that the response is limited). The model itself decides
  which name is hashed (source of synthesis, QNAME, root), what the category is and whether the
  response is subject to RRL at all.
  Times: the model's monotonic clock is (sum of the shifts so far)·10⁹ ns (the harness discards
  histories that took more than 0.4 s of real time). Result: one token per request: `q` steps
  `hex | none | panic` (the time signed of an unsigned TSIG error record made relative to the clock,
  as in `srvq`); `g` steps the canonical text of group `srvtsig` (times relative, MAC replaced by the
  verdict of an independent RFC 8945 verification). Spec column: `?;?;…` — anything but a panic (C01).
-/
namespace QV.Driver
open QV QV.Spec.Server

namespace SrvRrl

structure Cand where
  name : List UInt8
  idx : Nat
  dest : Nat
  qhash : Nat

structure QStep where
  srcHex : String
  udp : Bool
  /-- the octets handed to the server (a `g` step: after signing) -/
  req : Bytes
  rcode : Nat
  rnd : Bool
  cands : List Cand
  /-- `g` steps: the wall-clock second and the request MAC -/
  signed : Option (Nat × List UInt8) := none

inductive Step where
  | shift (secs : Nat)
  | q (s : QStep)

def parseCand (s : String) : Option Cand :=
  match s.splitOn ":" with
  | [n, i, d, h] => do
    let n ← unhex n
    pure ⟨n.toList, ← i.toNat?, ← d.toNat?, ← h.toNat?⟩
  | _ => none

def parseCands (cands : String) : Option (List Cand) :=
  if cands = "" then some [] else (cands.splitOn "/").mapM parseCand

def parseSrc (src : String) : Option Unit := do
  let _ ← RrlDrv.hexNat src
  if src.length ≠ 8 ∧ src.length ≠ 32 then none else pure ()

def parseStep (s : String) : Option Step :=
  if s.startsWith "s" then (s.drop 1).toString.toNat?.map Step.shift
  else match s.splitOn "," with
    | ["q", src, t, req, rc, rnd, cands] => do
      let udp ← if t = "u" then some true else if t = "t" then some false else none
      parseSrc src
      pure (.q { srcHex := src, udp, req := ← unhex req, rcode := ← rc.toNat?, rnd := rnd = "1",
                 cands := ← parseCands cands })
    | ["g", src, t, req, sign, now, rc, rnd, cands] => do
      let udp ← if t = "u" then some true else if t = "t" then some false else none
      parseSrc src
      let r ← SrvT.unhexL req
      if r.length < 12 then none
      let sp ← SrvT.parseSign (sign.replace "~" ",")
      let now ← now.toNat?
      let sg := Spec.ServerTsig.signRequest SrvT.hmReal r sp now
      pure (.q { srcHex := src, udp, req := sg.msg.toArray, rcode := ← rc.toNat?, rnd := rnd = "1",
                 cands := ← parseCands cands, signed := some (now, Spec.ServerTsig.priorMac sg) })
    | _ => none

/-- the table's `RandomState` as far as the probes of this history reveal it -/
def mkRandomState (qs : List QStep) : Rrl.RandomState :=
  let names : List (List UInt8 × UInt32) := qs.flatMap fun q =>
    if Rrl.Category.ofExtendedRcode q.rcode = .NoError then
      q.cands.map fun c => (Rrl.lowerName c.name, UInt32.ofNat c.qhash)
    else []
  let keys : List (Rrl.Key × Nat) := qs.flatMap fun q =>
    let cat := Rrl.Category.ofExtendedRcode q.rcode
    let v6 := (Rrl.ReceivedInfo.new (RrlDrv.modelSrc q.srcHex)).isIpv6
    q.cands.map fun c =>
      ({ dest := UInt64.ofNat c.dest, ipv6 := v6,
         qname_hash := if cat = .NoError then UInt32.ofNat c.qhash else 0, category := cat }, c.idx)
  { hashName := fun n => (names.lookup n).getD 0
    hashKey := fun k => (keys.lookup k).getD 0 }

def runModel (cfg : Server.Cfg) (keys : List Spec.ServerTsig.KeyCfg) (rs : Rrl.RandomState) :
    List Step → Rrl.Rrl → Nat → List String → List String
  | [], _, _, acc => acc.reverse
  | .shift secs :: rest, r, t, acc => runModel cfg keys rs rest r (t + Rrl.shiftNanos secs) acc
  | .q q :: rest, r, t, acc =>
    let tr := if q.udp then Server.Transport.udp else .tcp
    let now := match q.signed with | some (n, _) => n | none => 1700000000
    let show_ (b : Bytes) : String := match q.signed with
      | some (n, prior) => SrvT.canonicalT b n keys prior
      | none => hexOf (maskTime b now)
    match Server.handleMessageRrl cfg tr now 65535 q.req rs r (RrlDrv.modelSrc q.srcHex) t q.rnd with
    | .ok (some b, r') => runModel cfg keys rs rest r' t (show_ b :: acc)
    | .ok (none, r') => runModel cfg keys rs rest r' t ("none" :: acc)
    | _ => runModel cfg keys rs rest r t ("panic" :: acc)

end SrvRrl

def srvrrlHandler : Handler := fun op args =>
  match op, args with
  | "srvh", [payload, cat, keys, ne, nx, er, w, slip, v4, v6, size, steps] =>
    match payload.toNat?, parseCatalog cat, SrvT.parseKeys keys,
          [ne, nx, er, w, slip, v4, v6, size].mapM String.toNat?, (steps.splitOn ";").mapM SrvRrl.parseStep with
    | some p, some c, some ks, some [ne, nx, er, w, slip, v4, v6, size], some sts =>
      match c.mapM mkZoneEntry, Rrl.RrlParams.configure ne nx er w slip v4 v6 size with
      | some zs, .ok params =>
        let cfg : Server.Cfg := { payload := p, zones := zs, keys := SrvT.mkKeys ks }
        let qs := sts.filterMap fun s => match s with | .q q => some q | _ => none
        let rs := SrvRrl.mkRandomState qs
        let toks := SrvRrl.runModel cfg ks rs sts (Rrl.Rrl.new params 0) 0 []
        some (";".intercalate toks, ";".intercalate (toks.map fun _ => "?"))
      | _, _ => some bad
    | _, _, _, _, _ => some bad
  | _, _ => none

end QV.Driver
