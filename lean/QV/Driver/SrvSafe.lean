import QV.Driver.Server
import QV.Spec.Message

/-!
  group `srvsafe` (C01, C02): besides the `aud` / `srv` lines of group `server`,
    audq … = `aud …` (group `server`)
    srvq <u|t|r> <payload> <catalog> <reqhex>   model of handle_message over UDP / TCP / UDP with
        response rate limiting enabled (fresh server: nothing is limited yet, so the octets are
        those of the model without RRL); the "time signed"
        field of a trailing unsigned TSIG record is made relative to `now`.
        Spec column `?`: anything but a panic (C01).
-/
namespace QV.Driver
open QV QV.Spec.Server

/-- the inputs on which `Rrl::process_response` *used to* panic (defect D17, repaired by the `fix:`
    commit "RRL must not assume that a NOERROR response has a question"): the response is subject to
    RRL (`send_response`, UDP, opcode QUERY), its extended RCODE is NOERROR, and there is no question
    (QDCOUNT = 0) — the old code did `context.question.as_ref().unwrap()`; the repaired code hashes
    the root name instead. Kept as the predicate of the regression case in corpus/C01; the model
    column no longer uses it. -/
def rrlQuestionUnwrapPanics (req resp : Bytes) : Bool :=
  let opcode := (req.getD 2 0).toNat / 8 % 16
  let qd := (req.getD 4 0).toNat * 256 + (req.getD 5 0).toNat
  let ext := match Spec.specDecodeMsg resp with
    | some d =>
      d.rcode + 16 * (match d.ar.find? (fun r => r.ty = 41) with | some o => o.rawTtl / 16777216 | none => 0)
    | none => (resp.getD 3 0).toNat % 16
  opcode = 0 && qd = 0 && ext = 0

/-- replace the "time signed" field of a trailing unsigned TSIG record by `time − now` (mod 2^48);
    mirrors `mask_time` of harness/src/g_srvsafe.rs -/
def maskTime (resp : Bytes) (now : Nat) : Bytes :=
  match Spec.specDecodeMsg resp with
  | none => resp
  | some d =>
    match d.ar.getLast? with
    | none => resp
    | some last =>
      let n := resp.size
      if last.ty ≠ 250 ∨ last.rdata.length < 16 ∨ n < 16 then resp
      else if resp.getD (n - 8) 0 ≠ 0 ∨ resp.getD (n - 7) 0 ≠ 0 ∨ resp.getD (n - 2) 0 ≠ 0 ∨ resp.getD (n - 1) 0 ≠ 0 then resp
      else
        let t := (List.range 6).foldl (fun acc i => acc * 256 + (resp.getD (n - 16 + i) 0).toNat) 0
        let rel := (t + 2^64 - now % 2^64) % 2^48
        (List.range 6).foldl (fun (b : Bytes) i =>
          b.setIfInBounds (n - 16 + i) (UInt8.ofNat (rel / 256 ^ (5 - i) % 256))) resp

def srvsafeHandler : Handler := fun op args =>
  match op, args with
  | "srvq", [tr, payload, cat, req] =>
    match payload.toNat?, parseCatalog cat, unhex req with
    | some p, some c, some r =>
      match c.mapM mkZoneEntry with
      | some zs =>
        let cfg : Server.Cfg := { payload := p, zones := zs }
        let t := if tr = "t" then Server.Transport.tcp else .udp
        let now := 1700000000
        let res := match Server.handleMessage cfg t now 65535 r with
          | .ok (some b) =>
            hexOf (maskTime b now)
          | .ok none => "none"
          | .err _ => "err"
          | .panic => "panic"
        some (res, "?")
      | none => some bad
    | _, _, _ => some bad
  | "audq", [payload, cat, req, u, t] =>
    -- the audit of group `server`, plus: the two independent decoders agree. Spec/MsgDecode.lean (used
    -- by C02) is purely structural and reports RDATA whose embedded names / fixed parts do not fit
    -- as `rdOk = false`; Spec/Message.lean (the writer's) rejects a message whose RDATA names do not
    -- decode. So: Message accepts ⇒ MsgDecode accepts; MsgDecode accepts with all `rdOk` ⇒ Message accepts.
    let disagree (x : String) : Bool :=
      match parseResp x with
      | some (.bytes b) =>
        let (a, allOk) := match Spec.specDecodeMsg b with
          | some d => (true, (d.an ++ d.ns ++ d.ar).all (·.rdOk))
          | none => (false, false)
        let w := (Spec.Message.specDecodeMsg b).isSome
        (w && !a) || (a && allOk && !w)
      | _ => false
    match serverHandler "aud" [payload, cat, req, u, t] with
    | some (m, sp) =>
      if disagree u || disagree t then
        let (tags, cls) := match sp.splitOn "#" with
          | [a, b] => (a, "#" ++ b)
          | _ => (sp, "")
        let sep := if tags = "tags:" then "" else ","
        some (m, tags ++ sep ++ "C02:decoders-disagree" ++ cls)
      else some (m, sp)
    | none => none
  | _, _ => none

end QV.Driver
