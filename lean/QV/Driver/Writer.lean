import QV.Driver.Util

namespace QV.Driver
open QV

/-- ops of group `writer` — stub (not built yet) -/
def writerHandler : Handler := fun _ _ => none

end QV.Driver
