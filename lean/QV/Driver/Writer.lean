/-
  QV.Driver.Writer — ops of group `writer` (C12, C13).

    w <buflen> <limit> <mode> <fill> <op>;<op>;…;fin[:<machex>]
        model column: `ok <status>;… <msghex> <machex|->` (statuses of every call, the finished
        message, the MAC handed to the model for signed TSIG modes); spec column `-` (the
        specification is evaluated by `waudit` on the implementation's own octets)
    paudit …  same arguments as `waudit`; only the pointer audit of C13 is evaluated
    waudit <buflen> <limit> <mode> <fill> <ops> <statuses> <msghex[|msghex…]> <machex|->
        spec column : `ok` iff the given (implementation's) statuses and octets satisfy the
                      specification `QV.Spec.Message.checkSession` (independent decoder, abstract
                      message of the successful calls, size limit, no spurious truncation,
                      pointer audit); otherwise `viol:<reason>`
        model column: the same check applied to the model's own run of the session

  Op syntax: see harness/src/g_writer.rs.
-/
import QV.Driver.Util
import QV.Model.Writer
import QV.Spec.Message
import QV.Proofs.WriterBridge

namespace QV.Driver
open QV QV.Writer

/-- hex decoding that does not recurse on the length of the string -/
def unhexFast (s : String) : Option Bytes :=
  if s = "-" then some #[] else
  let u := s.toUTF8
  if u.size % 2 ≠ 0 then none else
  let hv (c : UInt8) : Option UInt8 :=
    if 48 ≤ c ∧ c ≤ 57 then some (c - 48)
    else if 97 ≤ c ∧ c ≤ 102 then some (c - 87)
    else if 65 ≤ c ∧ c ≤ 70 then some (c - 55)
    else none
  Id.run do
    let mut out : Bytes := Array.mkEmpty (u.size / 2)
    for i in [0:u.size / 2] do
      match hv (u.get! (2 * i)), hv (u.get! (2 * i + 1)) with
      | some a, some b => out := out.push (a * 16 + b)
      | _, _ => return none
    return some out

def hexFast (b : Bytes) : String :=
  if b.isEmpty then "-" else
  let d (n : UInt8) : UInt8 := if n < 10 then 48 + n else 87 + n
  let ba : ByteArray := Id.run do
    let mut out := ByteArray.emptyWithCapacity (2 * b.size)
    for x in b do
      out := (out.push (d (x / 16))).push (d (x % 16))
    return out
  (String.fromUTF8? ba).getD ""

private def nameArg (s : String) : Option WName := do
  let b ← unhexFast s
  let (n, rest) ← WName.parse b.toList
  if rest.isEmpty then some n else none

def bytesArg (s : String) : Option (List UInt8) := (unhexFast s).map (·.toList)

def modeArg : String → Option CMode
  | "s" => some .standard
  | "c" => some .casePreserving
  | "d" => some .disabled
  | _ => none

def hintArg (s : String) : Option HintRef :=
  match s with
  | "n" => some (.direct .none)
  | "q" => some (.direct .qname)
  | "o" => some (.direct .mostRecentOwner)
  | "r" => some (.direct .mostRecentNameInRdata)
  | _ =>
    if s.startsWith "x" then
      match (s.drop 1).toString.splitOn "." with
      | [a, b] => do
        let sl ← a.toNat?
        let idx ← b.toNat?
        some (.slot sl idx)
      | _ => none
    else none

def hvArg (s : String) : Option (Option Nat) :=
  if s = "-" then some none else s.toNat?.map some

def algArg : String → Option Alg
  | "1" => some .hmacSha1
  | "256" => some .hmacSha256
  | _ => none

def secArg : String → Option (RrSection × Bool)
  | "an" => some (.answer, false)
  | "ns" => some (.authority, false)
  | "ar" => some (.additional, false)
  | "ans" => some (.answer, true)
  | "nss" => some (.authority, true)
  | "ars" => some (.additional, true)
  | _ => none

def tsigModeArg (s : String) : Option TsigMode :=
  match s.splitOn "." with
  | ["u", n] => do some (.unsigned (← nameArg n))
  | ["q", a, k] => do some (.request (← algArg a) (← bytesArg k))
  | ["r", a, k, m] => do some (.response (← algArg a) (← bytesArg m) (← bytesArg k))
  | ["s", a, k, m] => do some (.subsequent (← algArg a) (← bytesArg m) (← bytesArg k))
  | _ => none

/-- one op of the session line (`fin` is handled by the caller); `fill` for template buffers -/
def parseOp (fill : UInt8) (s : String) : Option Op :=
  match s.splitOn ":" with
  | ["id", v] => do some (.setId (← v.toNat?))
  | ["qr", v] => do some (.setQr (← boolArg v))
  | ["aa", v] => do some (.setAa (← boolArg v))
  | ["tc", v] => do some (.setTc (← boolArg v))
  | ["rd", v] => do some (.setRd (← boolArg v))
  | ["ra", v] => do some (.setRa (← boolArg v))
  | ["oc", v] => do some (.setOpcode (← v.toNat?))
  | ["rc", v] => do some (.setRcode (← v.toNat?))
  | ["xr", v] => do some (.setExtendedRcode (← v.toNat?))
  | ["lim", v] => do some (.setLimit (← v.toNat?))
  | ["m", v] => do some (.setMode (← modeArg v))
  | ["q", n, t, c] => do some (.addQuestion (← nameArg n) (← t.toNat?) (← c.toNat?))
  | ["tsig", m, kn, ts, fu, oid, er, st] => do
    some (.setTsig (← tsigModeArg m)
      { keyName := (← nameArg kn), timeSigned := (← bytesArg ts), fudge := (← fu.toNat?),
        originalId := (← oid.toNat?), error := (← er.toNat?), serverTime := (← bytesArg st) })
  | [sec, h, o, t, c, ttl, rd, hv] => do
    let (sc, isSet) ← secArg sec
    let hint ← hintArg h
    let owner ← nameArg o
    let ty ← t.toNat?
    let cl ← c.toNat?
    let tt ← ttl.toNat?
    let hvv ← hvArg hv
    if isSet then
      let rds ← (rd.splitOn ",").mapM bytesArg
      some (.addRrset sc hint owner ty cl tt rds hvv)
    else
      some (.addRr sc hint owner ty cl tt (← bytesArg rd) hvv)
  | ["clr"] => some .clearRrs
  | ["edns", p] => do some (.setEdns (← p.toNat?))
  | ["ut", t] => do some (.updateTimeSigned (← bytesArg t))
  | ["tpl", n] => do some (.template (← n.toNat?) fill)
  | ["tpls", n, m] => do some (.templateSubsequent (← n.toNat?) fill (← bytesArg m))
  | ["g"] => some .getters
  | _ => none

/-- the ops of a line and the MAC given with `fin` (`none` = line does not end in `fin`) -/
def parseOps (fill : UInt8) (s : String) : Option (List Op × Option (List UInt8) × Bool) :=
  let parts := s.splitOn ";"
  let rec go : List String → List Op → Option (List Op × Option (List UInt8) × Bool)
    | [], acc => some (acc.reverse, none, false)
    | ["fin"], acc => some (acc.reverse, none, true)
    | [p], acc =>
      if p.startsWith "fin:" then
        match bytesArg (p.drop 4).toString with
        | some m => some (acc.reverse, some m, true)
        | none => none
      else match parseOp fill p with
        | some o => some ((o :: acc).reverse, none, false)
        | none => none
    | p :: ps, acc => match parseOp fill p with
      | some o => go ps (o :: acc)
      | none => none
  go parts []

def ModelRun.show (r : ModelRun) : String :=
  let st := ";".intercalate r.statuses
  match r.msg with
  | some m => s!"ok {st} {hexFast m} {match r.mac with | some mc => hexOfList mc | none => "-"}"
  | none => s!"ok {st} - -"

/-- parse the common prefix of `w` / `waudit` and run the model -/
def sessionOf (buflen limit mode fill ops : String) :
    Option (Nat × Nat × CMode × List Op × Option (Out WriterErr ModelRun)) := do
  let bl ← buflen.toNat?
  let li ← limit.toNat?
  let md ← modeArg mode
  let fi ← fill.toNat?
  let fb := UInt8.ofNat fi
  let (opl, mac, fin) ← parseOps fb ops
  match Writer.new (Array.replicate bl fb) li with
  | .ok s0 =>
    let ss : Session := { w := { s0 with mode := md } }
    some (bl, li, md, opl, some (.ok (runModel ss opl mac fin)))
  | .err e => some (bl, li, md, opl, some (.err e))
  | .panic => some (bl, li, md, opl, some .panic)

/-- `waudit` (the whole of C12 + C13) / `paudit` (the pointer audit of C13 only) -/
def audit (ptrOnly : Bool) (buflen limit mode fill ops st msgs mac : String) : Option (String × String) :=
  match sessionOf buflen limit mode fill ops, (msgs.splitOn "|").mapM unhexFast,
        (if mac = "-" then some none else (bytesArg mac).map some) with
  | some (bl, li, md, opl, some (.ok r)), some implMsgs, some macv =>
    let sops := opl.map toSpecOp
    let specCol := Spec.Message.checkSession bl li (toSpecMode md) sops (st.splitOn ";") implMsgs macv ptrOnly
    -- the same check on the model's own output
    let modelCol := match r.msg with
      | some m =>
        Spec.Message.checkSession bl li (toSpecMode md) sops r.statuses (r.pre ++ [m]) r.mac ptrOnly
      | none => "viol:model-panic"
    some (modelCol, specCol)
  | _, _, _ => some bad

def writerHandler : Handler := fun op args =>
  match op, args with
  | "w", [buflen, limit, mode, fill, ops] =>
    match sessionOf buflen limit mode fill ops with
    | some (_, _, _, _, some (.ok r)) => some (r.show, "-")
    | some (_, _, _, _, some (.err e)) => some ("err:" ++ e.toString, "-")
    | some (_, _, _, _, some .panic) => some ("panic", "-")
    | _ => some bad
  | "waudit", [buflen, limit, mode, fill, ops, st, msgs, mac] => audit false buflen limit mode fill ops st msgs mac
  | "paudit", [buflen, limit, mode, fill, ops, st, msgs, mac] => audit true buflen limit mode fill ops st msgs mac
  | _, _ => none

end QV.Driver
