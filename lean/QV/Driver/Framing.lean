import QV.Driver.Util
import QV.Model.Framing
import QV.Spec.Framing

/-!
  ops of group `framing` (C30).

  `tcp <provider> <mode> <segments> <table>` — one TCP conversation against a real provider.
      segments: the octets the client wrote, as it wrote them (`/`-separated hex, in order);
      table: `req=resp` pairs (hex; `~` = no response), the real `Server::handle_message` applied to
      each request alone (it is the `handler` parameter of the model and of the spec);
      mode `w`: the client waited to see whether the server closes (result ends in `closed` /
      `open`), mode `h`: it half-closed after the expected octets (result ends in `-`).
      model: `QV.Framing.conn` on the segments; spec: `respond` on the frames of the stream.
      result `ok <octets received> <closed|open|->`.
  `udp <provider> <payload> <datagram> <resp|~>` — one datagram; result `ok <n> <first response>`.
-/
namespace QV.Driver
open QV QV.Framing

private def hx (s : String) : Option (List UInt8) := if s = "-" then some [] else unhexList s.toList

private def parseTable (s : String) : Option (List (List UInt8 × Option (List UInt8))) :=
  if s = "-" then some [] else
  (s.splitOn ",").mapM fun e =>
    match e.splitOn "=" with
    | [a, b] => do
      let req ← hx a
      let resp ← if b = "~" then some none else (hx b).map some
      pure (req, resp)
    | _ => none

/-- `none` = the request is not in the table (a harness error) -/
private def lookup (t : List (List UInt8 × Option (List UInt8))) (m : List UInt8) : Option (Option (List UInt8)) :=
  (t.find? (·.1 == m)).map (·.2)

def framingHandler : Handler := fun op args =>
  match op, args with
  | "tcp", [_prov, mode, segs, table] =>
    let segsL : Option (List (List UInt8)) :=
      if segs = "-" then some [] else (segs.splitOn "/").mapM hx
    match segsL, parseTable table with
    | some sg, some t =>
      -- every frame of the stream must be in the table
      let frames := (QV.Spec.Framing.deframe sg.flatten).1
      if frames.any (fun m => (lookup t m).isNone) then some bad else
      let handler : List UInt8 → Option (List UInt8) := fun m => (lookup t m).getD none
      let (mo, me) := conn handler sg
      let mend := if mode = "h" then "-" else match me with
        | .noResponse => "closed" | .eof => "open" | .full => "full" | .fuel => "fuel"
      let (so, se) := QV.Spec.Framing.specStream handler sg.flatten
      let send := if mode = "h" then "-" else match se with | .closed => "closed" | .open => "open"
      some (s!"ok {hexOfList mo} {mend}", s!"ok {hexOfList so} {send}")
    | _, _ => some bad
  | "udp", [_prov, payload, dgram, resp] =>
    match payload.toNat?, hx dgram,
      (if resp = "~" then some none else (hx resp).map some) with
    | some p, some d, some r =>
      let handler : List UInt8 → Option (List UInt8) := fun _ => r
      let m := match udpStep handler p d with
        | .none => "ok 0 -"
        | .send x => s!"ok 1 {hexOfList x}"
        | .panic => "panic"
      let s := match r with
        | none => "ok 0 -"
        | some x => if QV.Spec.Framing.udpOk p [x] then s!"ok 1 {hexOfList x}" else "err:oversize"
      some (m, s)
    | _, _, _ => some bad
  | _, _ => none

end QV.Driver
