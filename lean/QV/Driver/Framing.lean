import QV.Driver.Util

namespace QV.Driver
open QV

/-- ops of group `framing` — stub (not built yet) -/
def framingHandler : Handler := fun _ _ => none

end QV.Driver
