/-
  Driver ops of group `rdata` (C18, C19).

    rv <class> <type> <rdatahex>                         Rdata::validate          → ok | err:<V>
    rr <class> <type> <msghex> <cursor> <rdlength>       Rdata::read              → ok <hex> | err:<V> | panic
    rcomp <class> <type> <rdatahex>                      Rdata::components, iterated to the end or the
                                                         first error → ok <K>:<hex>,… | ok . | err:<V>
    req <class> <type> <a> <b>                           Rdata::equals            → ok true|false
    req3 <class> <type> <a> <b> <c>                      equals on all nine ordered pairs
                                                         (ab ba bc cb ac ca aa bb cc) → ok <9 bits>
    rset <class> <type> <r1>,<r2>,…  (`.` = no member)   RdataSetOwned::from_iter then iter → ok <hex>,… | ok none

  Spec column: `specValidate`, `specRead`, `specEq`, `firstOfEachClass specEq`, `specComponents`
  (QV.Spec.Rdata).  `-` where the property says nothing: `rr` with `cursor + rdlength` overflowing
  `usize` (no such cursor is an offset into a message), `rcomp` on malformed RDATA.
-/
import QV.Driver.Util
import QV.Model.Rdata
import QV.Model.RdataSet
import QV.Spec.Rdata

namespace QV.Driver
open QV QV.Rdata QV.Spec

def showUnitOut : Out RErr Unit → String
  | .ok _ => "ok"
  | .err e => "err:" ++ e.toString
  | .panic => "panic"

def showComp : Comp → String
  | .compressibleName w => "C:" ++ hexOfList w
  | .uncompressibleName w => "U:" ++ hexOfList w
  | .other o => "O:" ++ hexOfList o

def showList (l : List String) : String := if l.isEmpty then "." else ",".intercalate l

def bit (b : Bool) : String := if b then "1" else "0"

def parseList (s : String) : Option (List Bytes) :=
  if s = "." then some [] else (s.splitOn ",").mapM unhex

def eq9 (f : Bytes → Bytes → Option Bool) (a b c : Bytes) : Option String := do
  let l ← [(a, b), (b, a), (b, c), (c, b), (a, c), (c, a), (a, a), (b, b), (c, c)].mapM (fun p => f p.1 p.2)
  pure ("".intercalate (l.map bit))

def rdataHandler : Handler := fun op args =>
  match op, args with
  | "rv", [c, t, r] =>
    match natArg c, natArg t, unhex r with
    | some c, some t, some r =>
      some (showUnitOut (validate c t r), if specValidate c t r.toList then "ok" else "err")
    | _, _, _ => some bad
  | "rr", [c, t, m, cur, len] =>
    match natArg c, natArg t, unhex m, natArg cur, natArg len with
    | some c, some t, some m, some cur, some len =>
      some (showOut RErr.toString hexOf (read c t m cur len),
            if cur + len > USIZE_MAX then "-"
            else match specRead c t m cur len with
                 | some r => "ok " ++ hexOfList r
                 | none => "err")
    | _, _, _, _, _ => some bad
  | "rcomp", [c, t, r] =>
    match natArg c, natArg t, unhex r with
    | some c, some t, some r =>
      some (showOut RErr.toString (fun l => showList (l.map showComp)) (components c t r),
            if specValidate c t r.toList then
              match specComponents c t r.toList with
              | some l => "ok " ++ showList (l.map (fun x => String.singleton x.1 ++ ":" ++ hexOfList x.2))
              | none => "-"
            else "-")
    | _, _, _ => some bad
  | "req", [c, t, a, b] =>
    match natArg c, natArg t, unhex a, unhex b with
    | some c, some t, a?, b? =>
      match a?, b? with
      | some a, some b =>
        some (showOut RErr.toString (fun v => if v then "true" else "false") (equals c t a b),
              "ok " ++ (if specEq c t a.toList b.toList then "true" else "false"))
      | _, _ => some bad
    | _, _, _, _ => some bad
  | "req3", [c, t, a, b, d] =>
    match natArg c, natArg t, unhex a, unhex b, unhex d with
    | some c, some t, some a, some b, some d =>
      let m := eq9 (fun x y => (equals c t x y).toOption) a b d
      let s := eq9 (fun x y => some (specEq c t x.toList y.toList)) a b d
      some (match m with | some s => "ok " ++ s | none => "panic",
            match s with | some s => "ok " ++ s | none => "-")
    | _, _, _, _, _ => some bad
  | "rset", [c, t, l] =>
    match natArg c, natArg t, parseList l with
    | some c, some t, some xs =>
      some (showOut RErr.toString
              (fun (o : Option (List UInt8)) => match o with
                | some inner => showList ((QV.RdataSet.iter inner).map hexOf)
                | none => "none")
              (QV.RdataSet.fromIter c t xs),
            if xs.isEmpty then "ok none"
            else "ok " ++ showList ((firstOfEachClass (fun x y => specEq c t x y) (xs.map Array.toList)).map hexOfList))
    | _, _, _ => some bad
  | _, _ => none

end QV.Driver
