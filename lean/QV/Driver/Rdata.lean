import QV.Driver.Util

namespace QV.Driver
open QV

/-- ops of group `rdata` — stub (not built yet) -/
def rdataHandler : Handler := fun _ _ => none

end QV.Driver
